"""C12 — inferred result types match values: the two clauses visible in
source shape.

  R1 the type descriptor reported to clients derives from the inferred
     stype of the same IR (binary), std::str (JSON formats) or the null
     descriptor (no output)
  R2 call nodes carry the resolved overload's return type
  R3 best-candidate selection loops score each candidate on its own
  R4 a collection's common type is built from the element-wise results
  R5 union / intersection simplification absorb in the right direction
"""
from __future__ import annotations

import ast
from typing import List, Set

from ..cfg import CFG
from ..model import (AnalysisError, FuncInfo, Repo, call_name, kwarg, norm,
                     walk_no_nested)

COMP = 'edb.server.compiler.compiler'
FUNC = 'edb.edgeql.compiler.func'


def _defs(fn: FuncInfo, name: str) -> List[ast.AST]:
    out = []
    for n in walk_no_nested(fn.node):
        if isinstance(n, ast.Assign):
            for t in n.targets:
                for tt in (t.elts if isinstance(t, ast.Tuple) else [t]):
                    if norm(tt) == name:
                        out.append(n.value)
    return out


def run(repo: Repo, ctx) -> None:
    ctx.explanation = (
        'Decides two provenance clauses: R1 out_type_data/out_type_id of the '
        'compiled Query come from sertypes.describe(ir.schema, ir.stype, …) '
        'of the IR compiled for this statement under the BINARY format, from '
        'describe(<std::str>) under the JSON formats and from the NULL '
        'descriptor under NONE - three arms of one test on the output '
        'format - and flow unchanged into the query unit; R2 the typeref of '
        'every FunctionCall / OperatorCall IR node (and the typehint of the '
        'set wrapping it) derives only from matched_call.return_type (with '
        'the union-type transfer on the object-typed set-operator arm), '
        'typemod from the matched callable, and matched_call is the single '
        'element selected from the overload resolver\'s result, the '
        'ambiguous and no-match arms raising. Overload ranking, implicit '
        'cast distances and common-type computation are NOT decided: they '
        'need evaluation against the reference semantics.')
    ctx.not_decided = ['overload ranking', 'implicit cast distances',
                       'common-type computation (set constructors, UNION, '
                       '??, IF/ELSE)', 'type of evaluated values']
    cm = repo.module(COMP)
    qfn = repo.func(f'{COMP}._compile_ql_query')
    ctx.saw(qfn)

    # ---- R1 ---------------------------------------------------------------
    ctx.floor('C12.R1', 5)
    g = CFG(qfn.node)
    sites = [n for n in g.nodes if n.kind == 'stmt' and isinstance(
        n.ast, ast.Assign) and any(
        'out_type_data' in norm(t) for t in n.ast.targets)]
    if len(sites) < 3:
        raise AnalysisError('C12.R1: out_type_data assignments not found')
    fmt_tests = {norm(t.ast): t.id for t in g.nodes if t.kind == 'test'
                 and norm(t.ast).startswith('ctx.output_format is ')}
    for n in sites:
        v = n.ast.value
        txt = norm(v)
        if txt == 'sertypes.NULL_TYPE_DESC':
            t = fmt_tests.get(
                'ctx.output_format is enums.OutputFormat.NONE')
            ok = t is not None and g.edge_dominates(t, 'T', n.id)
            arm = 'NONE -> null descriptor'
        elif isinstance(v, ast.Call) and norm(v.func) == 'sertypes.describe':
            a = [norm(x) for x in v.args]
            if len(a) >= 2 and a[0] == 'ir.schema' and a[1] == 'ir.stype':
                t = fmt_tests.get(
                    'ctx.output_format is enums.OutputFormat.BINARY')
                ok = t is not None and g.edge_dominates(t, 'T', n.id) and \
                    a[2:4] == ['ir.view_shapes', 'ir.view_shapes_metadata']
                arm = 'BINARY -> describe(ir.schema, ir.stype, shapes)'
            elif len(a) >= 2 and a[0] == 'ir.schema' and "'std::str'" in \
                    a[1].replace('"', "'"):
                tb = fmt_tests.get(
                    'ctx.output_format is enums.OutputFormat.BINARY')
                tn = fmt_tests.get(
                    'ctx.output_format is enums.OutputFormat.NONE')
                ok = tb is not None and tn is not None and \
                    g.edge_dominates(tb, 'F', n.id) and \
                    g.edge_dominates(tn, 'F', n.id)
                arm = 'JSON formats -> describe(std::str)'
            else:
                ok, arm = False, f'describe({", ".join(a[:2])})'
        else:
            ok, arm = False, txt[:60]
        ctx.ob('C12.R1', f'_compile_ql_query:out_type@{arm.split(" ->")[0]}',
               ok, f'the output type descriptor is built from `{txt[:80]}`: '
               f'not the inferred stype of the compiled IR under the '
               f'matching output format', f'{cm.rel()}:{n.lineno}',
               sample=arm)
    irb = _defs(qfn, 'ir')
    ok = bool(irb) and all('compile_ast_to_ir' in norm(b) for b in irb)
    ctx.ob('C12.R1', '_compile_ql_query:ir-source', ok,
           '`ir` is not the IR compiled from this statement', qfn.loc,
           sample='ir = compile_ast_to_ir(ql, ...)')
    qc = [c for c in ast.walk(qfn.node) if isinstance(c, ast.Call)
          and norm(c.func) == 'dbstate.Query']
    for c in qc:
        ok = norm(kwarg(c, 'out_type_data')) == 'out_type_data' and \
            norm(kwarg(c, 'out_type_id')) == 'out_type_id.bytes'
        ctx.ob('C12.R1', '_compile_ql_query:Query.out_type', ok,
               'dbstate.Query is not given the computed descriptor',
               f'{cm.rel()}:{c.lineno}',
               sample='out_type_data=out_type_data, '
                      'out_type_id=out_type_id.bytes')
    # unit.out_type_* <- comp.out_type_*
    n_unit = 0
    for f in repo._funcs_of(cm):
        for n in walk_no_nested(f.node):
            if isinstance(n, ast.Assign) and norm(n.targets[0]) in (
                    'unit.out_type_data', 'unit.out_type_id'):
                n_unit += 1
                fld = norm(n.targets[0]).split('.')[1]
                ok = norm(n.value) == f'comp.{fld}'
                ctx.ob('C12.R1', f'{f.name}:unit.{fld}', ok,
                       f'unit.{fld} = {norm(n.value)[:50]}',
                       f'{cm.rel()}:{n.lineno}', sample=norm(n.value)[:50])
    if n_unit < 2:
        raise AnalysisError('C12.R1: unit.out_type_* assignments not found')

    # ---- R2 ------------------------------------------------------------------
    ctx.floor('C12.R2', 8)
    for fname, node_cls in (('compile_FunctionCall', 'irast.FunctionCall'),
                            ('compile_operator', 'irast.OperatorCall')):
        f = repo.func(f'{FUNC}.{fname}')
        ctx.saw(f)
        calls = [c for c in ast.walk(f.node) if isinstance(c, ast.Call)
                 and norm(c.func) == node_cls]
        if len(calls) != 1:
            raise AnalysisError(f'C12.R2: {node_cls}(...) in {fname}: '
                                f'{len(calls)} sites')
        c = calls[0]
        tr = kwarg(c, 'typeref')
        ok = isinstance(tr, ast.Call) and norm(tr.func) == \
            'typegen.type_to_typeref' and norm(tr.args[0]) == 'rtype'
        ctx.ob('C12.R2', f'{fname}:typeref-from-rtype', ok,
               f'{node_cls}.typeref is `{norm(tr)[:60]}`, not '
               f'type_to_typeref(rtype)', f.loc, sample=norm(tr)[:60])
        # rtype derives from matched_call.return_type only
        defs = [norm(d) for d in _defs(f, 'rtype')]
        allowed = []
        bad = []
        for d in defs:
            if d == 'matched_call.return_type':
                allowed.append(d)
            elif d.startswith('cast(') and d.endswith(', rtype)'):
                allowed.append(d)
            elif d.startswith('schemactx.get_union_type('):
                allowed.append(d)
            else:
                bad.append(d)
        ok = 'matched_call.return_type' in allowed and not bad
        ctx.ob('C12.R2', f'{fname}:rtype-provenance', ok,
               f'rtype is also assigned from {bad}: the call node\'s type '
               f'would not be the resolved overload\'s return type', f.loc,
               sample=defs)
        if any(d.startswith('schemactx.get_union_type(') for d in defs):
            # only on the object-typed set-operator arm
            g = CFG(f.node)
            un = [n.id for n in g.nodes if n.kind == 'stmt' and isinstance(
                n.ast, ast.Assign) and norm(n.ast.targets[0]) == 'rtype'
                and 'get_union_type' in norm(n.ast.value)]
            tests = [t.id for t in g.nodes if t.kind == 'test'
                     and 'rtype.is_object_type()' in norm(t.ast)
                     and 'std::UNION' in norm(t.ast)]
            ok = bool(un) and bool(tests) and all(
                any(g.edge_dominates(t, 'T', u) for t in tests) for u in un)
            ctx.ob('C12.R2', f'{fname}:union-arm', ok,
                   'the union-type override of rtype is not confined to '
                   'the object-typed UNION / IF / ?? arm', f.loc,
                   sample='only under {UNION, IF, ??} and '
                          'rtype.is_object_type()')
        tm = norm(kwarg(c, 'typemod'))
        ok = tm in ('matched_call.func.get_return_typemod(env.schema)',
                    'oper.get_return_typemod(env.schema)',
                    'func.get_return_typemod(env.schema)')
        if 'oper.' in tm or tm.startswith('func.'):
            var = tm.split('.')[0]
            ok = ok and [norm(d) for d in _defs(f, var)] == \
                ['matched_call.func']
        ctx.ob('C12.R2', f'{fname}:typemod', ok,
               f'typemod = {tm}: not the matched callable\'s', f.loc,
               sample=tm)
        # matched_call: single element of the resolver result; other arms
        # raise
        mdefs = [norm(d) for d in _defs(f, 'matched_call')]
        ok = bool(mdefs) and all(d == 'matched[0]' for d in mdefs)
        ctx.ob('C12.R2', f'{fname}:matched_call-selection', ok,
               f'matched_call is bound to {mdefs}', f.loc, sample=mdefs)
        amb = [n for n in ast.walk(f.node) if isinstance(n, ast.If)
               and norm(n.test) == 'len(matched) > 1']
        ok = bool(amb) and all(any(isinstance(x, ast.Raise)
                                   for s_ in n.body for x in ast.walk(s_))
                               for n in amb)
        ctx.ob('C12.R2', f'{fname}:ambiguity-raises', ok,
               'an ambiguous overload match no longer has a raising path',
               f.loc, sample='len(matched) > 1 -> QueryError (except the '
                             'reviewed abstract-constraint escape)')
        # the wrapping set gets the same type
        es = [x for x in ast.walk(f.node) if isinstance(x, ast.Call)
              and norm(x.func) == 'setgen.ensure_set'
              and kwarg(x, 'typehint') is not None]
        for x in es:
            th = norm(kwarg(x, 'typehint'))
            ok = th == 'rtype'
            ctx.ob('C12.R2', f'{fname}:ensure_set-typehint', ok,
                   f'the set wrapping the call is typed `{th}`', f.loc,
                   sample=th)

    _r3(repo, ctx)
    _r4(repo, ctx)
    _r5(repo, ctx)
    _r6(repo, ctx)


def _argmin_loops(fn: FuncInfo):
    """(loop, best, score): loops of the shape
         for x in xs: ... if best is None: best = s ... elif best > s: best = s
    """
    for loop in ast.walk(fn.node):
        if not isinstance(loop, ast.For):
            continue
        for n in ast.walk(loop):
            if not isinstance(n, ast.If):
                continue
            t = n.test
            if not (isinstance(t, ast.Compare) and len(t.ops) == 1
                    and isinstance(t.ops[0], (ast.Gt, ast.Lt, ast.GtE,
                                              ast.LtE))
                    and isinstance(t.left, ast.Name)
                    and isinstance(t.comparators[0], ast.Name)):
                continue
            a, b = t.left.id, t.comparators[0].id
            for st in n.body:
                if isinstance(st, ast.Assign) and len(st.targets) == 1 \
                        and isinstance(st.targets[0], ast.Name) \
                        and isinstance(st.value, ast.Name) \
                        and {st.targets[0].id, st.value.id} == {a, b}:
                    yield loop, st.targets[0].id, st.value.id


def _r3(repo: Repo, ctx) -> None:
    ctx.floor('C12.R3', 2)
    mods = ['edb.edgeql.compiler.polyres', 'edb.edgeql.compiler.func',
            'edb.edgeql.compiler.casts', 'edb.schema.casts',
            'edb.schema.functions', 'edb.schema.types', 'edb.schema.utils']
    seen = set()
    for mn in mods:
        if mn not in repo.modules:
            continue
        for fn in repo._funcs_of(repo.module(mn)):
            for loop, best, score in _argmin_loops(fn):
                if (fn.qualname, loop.lineno, score) in seen:
                    continue
                seen.add((fn.qualname, loop.lineno, score))
                ctx.saw(fn)
                # the score is (plainly) assigned inside the loop body, and
                # every path from the loop head to a read of it in the body
                # passes such an assignment
                g = CFG(fn.node)
                head = g.nodes_of(loop)
                defs = [n.id for n in g.nodes if n.kind == 'stmt'
                        and isinstance(n.ast, (ast.Assign, ast.AnnAssign))
                        and _in(loop, n.ast)
                        and any(norm(t) == score for t in (
                            n.ast.targets if isinstance(n.ast, ast.Assign)
                            else [n.ast.target]))]
                uses = [n.id for n in g.nodes if n.kind in ('stmt', 'test')
                        and _in(loop, n.ast) and n.id not in defs
                        and any(isinstance(x, ast.Name) and x.id == score
                                for x in ast.walk(n.ast)
                                if not isinstance(x, ast.stmt)
                                or x is n.ast)
                        and not _only_nested(n.ast, score)]
                ok = bool(defs) and bool(head)
                if ok:
                    h = [x for x in head if g.nodes[x].kind == 'for'] or head
                    start = [s_ for s_, lab in g.nodes[h[0]].succ
                             if lab == 'T' and s_ not in defs]
                    # one iteration only: never through the loop head again
                    reach = set(start) | g.reachable(
                        start, avoid=set(defs) | {h[0]})
                    ok = not (set(uses) & reach)
                ctx.ob('C12.R3', f'{fn.qualname}:{score}', ok,
                       f'{fn.qualname} keeps the candidate whose `{score}` '
                       f'is smallest, but `{score}` is not recomputed from '
                       f'scratch for every candidate (it carries over from '
                       f'the previous iteration): the overload / cast chosen '
                       f'depends on enumeration order, and with it the '
                       f'reported result type', fn.loc,
                       sample=f'{best} <- min {score}, reset per iteration')
    if 'edb.edgeql.compiler.polyres.find_callable' not in {
            q for q, _l, _s in seen}:
        raise AnalysisError('C12.R3: the selection loops of find_callable '
                            'were not recognised')


def _in(outer: ast.AST, inner: ast.AST) -> bool:
    return any(x is inner for x in ast.walk(outer))


def _only_nested(node: ast.AST, name: str) -> bool:
    """compound statement nodes: the use is in a nested statement, which has
    its own CFG node"""
    return False


def _r4(repo: Repo, ctx) -> None:
    ctx.floor('C12.R4', 2)
    tm = repo.module('edb.schema.types')
    n_inst = 0
    for fn in repo._funcs_of(tm):
        if fn.name not in ('find_common_implicitly_castable_type',
                           '_to_nonpolymorphic', '_resolve_polymorphic'):
            continue
        # values produced by the element-wise recursive call
        derived: Set[str] = set()
        for n in ast.walk(fn.node):
            if isinstance(n, ast.For):
                for a in ast.walk(n):
                    if isinstance(a, ast.Assign) and isinstance(
                            a.value, ast.Call) and isinstance(
                            a.value.func, ast.Attribute) and \
                            a.value.func.attr.lstrip('_') in (
                                fn.name.lstrip('_'), 'to_nonpolymorphic',
                                'resolve_polymorphic'):
                        for t in a.targets:
                            for e in (t.elts if isinstance(t, ast.Tuple)
                                      else [t]):
                                if isinstance(e, ast.Name) and e.id != \
                                        'schema':
                                    derived.add(e.id)
        if not derived:
            continue
        changed = True
        while changed:
            changed = False
            for n in ast.walk(fn.node):
                if isinstance(n, ast.Call) and isinstance(
                        n.func, ast.Attribute) and n.func.attr in (
                        'append', 'extend', 'add') and isinstance(
                        n.func.value, ast.Name) and any(
                        isinstance(x, ast.Name) and x.id in derived
                        for a in n.args for x in ast.walk(a)):
                    if n.func.value.id not in derived:
                        derived.add(n.func.value.id)
                        changed = True
        ctors = [c for c in ast.walk(fn.node) if isinstance(c, ast.Call)
                 and isinstance(c.func, ast.Attribute)
                 and c.func.attr == 'from_subtypes' and len(c.args) >= 2]
        for c in ctors:
            n_inst += 1
            used = {x.id for x in ast.walk(c.args[1])
                    if isinstance(x, ast.Name)}
            ok = bool(used & derived)
            ctx.saw(fn)
            ctx.ob('C12.R4', f'{fn.qualname}:{norm(c)[:40]}', ok,
                   f'{fn.qualname} computes element-wise results into '
                   f'{sorted(derived)} but builds the returned collection '
                   f'from {norm(c.args[1])[:50]}: the reported element types '
                   f'are those of one operand, not the common / resolved '
                   f'ones', fn.loc, sample=norm(c.args[1])[:60])
    if n_inst < 2:
        raise AnalysisError('C12.R4: element-wise collection constructors '
                            'not found')


def _r5(repo: Repo, ctx) -> None:
    ctx.floor('C12.R5', 4)
    um = repo.module('edb.schema.utils')
    want = {'simplify_union': ('minimize_class_set_by_most_generic',
                               'minimize_class_set_by_least_generic',
                               'a union is described by its most generic '
                               'members: Person | User (User extending '
                               'Person) contains plain Person objects'),
            'simplify_intersection': (
                'minimize_class_set_by_least_generic',
                'minimize_class_set_by_most_generic',
                'an intersection is described by its least generic members')}
    n = 0
    for fn in repo._funcs_of(um):
        for prefix, (need, forbid, why) in want.items():
            if not fn.name.startswith(prefix):
                continue
            n += 1
            calls = {call_name(c) for c in ast.walk(fn.node)
                     if isinstance(c, ast.Call) and call_name(c)}
            ok = need in calls and forbid not in calls
            ctx.saw(fn)
            ctx.ob('C12.R5', f'{fn.name}:direction', ok,
                   f'{fn.name} minimises with '
                   f'{sorted(c for c in calls if "minimize" in c)}; {why}',
                   fn.loc, sample=need)
    if n < 3:
        raise AnalysisError('C12.R5: simplify_* functions not found')
    # the two minimisers filter in opposite directions
    for name, own_mro in (('minimize_class_set_by_most_generic', 'mros[i]'),
                          ('minimize_class_set_by_least_generic', 'mros[j]')):
        fn = repo.func(f'edb.schema.utils.{name}')
        pairs = [norm(t) for t in ast.walk(fn.node) if isinstance(
            t, ast.Tuple) and len(t.elts) == 2 and norm(t.elts[0]).startswith(
                'mros[')]
        other = 'classes[j]' if own_mro == 'mros[i]' else 'classes[i]'
        ok = pairs == [f'({own_mro}, {other})']
        incl_self = '| {p}' in norm(fn.node)
        if name.endswith('least_generic'):
            ok = ok and incl_self
        ctx.ob('C12.R5', f'{name}:filter', ok,
               f'{name} tests {pairs}: expected ({own_mro}, {other})',
               fn.loc, sample=pairs)
    # the compiler's union of operand types goes through the simplifier
    gu = repo.func('edb.edgeql.compiler.schemactx.get_union_type')
    calls = {call_name(c) for c in ast.walk(gu.node)
             if isinstance(c, ast.Call) and call_name(c)}
    ok = any('ensure_union_type' in c or 'get_or_create_union_type' in c
             for c in calls)
    ctx.ob('C12.R5', 'schemactx.get_union_type:via-schema-utils', ok,
           f'get_union_type builds the union through {sorted(calls)[:6]}',
           gu.loc, sample='s_utils.ensure_union_type')


class _Sub:
    def __init__(self, ctx, rule):
        self._c = ctx
        self._rule = rule

    def __getattr__(self, k):
        return getattr(self._c, k)

    def ob(self, rule, *a, **kw):
        return self._c.ob(self._rule, *a, **kw)

    def fail(self, rule, *a, **kw):
        return self._c.fail(self._rule, *a, **kw)

    def floor(self, rule, n):
        self._c.floor(self._rule, min(n, 5))


def _tokens(t: str):
    import re
    return re.findall(r'[A-Za-z_][A-Za-z_0-9]*|\S', t)


def _mirror(tok: str) -> str:
    if 'left' in tok:
        return tok.replace('left', 'right')
    if 'right' in tok:
        return tok.replace('right', 'left')
    return tok


def _r6(repo: Repo, ctx) -> None:
    # ---- R6: the descriptor sent to clients is a faithful, unique encoding
    #      of the inferred type (C14's rules)
    from . import c14
    c14.run(repo, _Sub(ctx, 'C12.R6'))
    # ---- R7: left / right operands are treated alike -----------------------
    ctx.floor('C12.R7', 2)
    mods = ['edb.edgeql.compiler.typegen', 'edb.edgeql.compiler.polyres',
            'edb.edgeql.compiler.func', 'edb.schema.types',
            'edb.schema.utils', 'edb.schema.casts', 'edb.schema.scalars']
    n_pairs = 0
    for mn in mods:
        m = repo.modules.get(mn)
        if m is None:
            continue
        for fn in repo._funcs_of(m):
            for blk in ast.walk(fn.node):
                body = getattr(blk, 'body', None)
                if not isinstance(body, list):
                    continue
                for i, s1 in enumerate(body):
                    if not isinstance(s1, ast.stmt):
                        continue
                    a = _tokens(norm(s1))
                    if not any('left' in t for t in a) or any(
                            'right' in t for t in a):
                        continue
                    for s2 in body[i + 1:i + 4]:
                        b = _tokens(norm(s2))
                        if len(b) != len(a) or not any('right' in t
                                                       for t in b):
                            continue
                        want = [_mirror(t) for t in a]
                        diff = [(x, y) for x, y in zip(want, b) if x != y]
                        if len(diff) > 2:
                            continue      # not a mirrored sibling
                        # only a left_* name surviving in the right-hand
                        # copy is the slip; other differences (self/other)
                        # are what distinguishes the two operands
                        diff = [(x, y) for x, y in diff if 'left' in y]
                        n_pairs += 1
                        ctx.saw(fn)
                        ctx.ob('C12.R7', f'{fn.qualname}:mirror@L'
                               f'{s2.lineno - fn.node.lineno}', not diff,
                               f'{fn.qualname}: the statement handling the '
                               f'right operand mirrors the one for the left '
                               f'operand except for {diff}: a left_* name '
                               f'in the right-hand copy (copy-paste slip) '
                               f'makes the right operand be combined by the '
                               f'left operand\'s operator, so the inferred '
                               f'type of A & B & (C | D) loses its union',
                               fn.loc, sample='mirrored statements agree')
    if n_pairs < 2:
        raise AnalysisError(f'C12.R7: only {n_pairs} mirrored statement '
                            f'pairs found')
    # ---- R8: a common-type fold updates its accumulator in every iteration --
    ctx.floor('C12.R8', 2)
    n_f = 0
    for mn in ('edb.schema.utils', 'edb.edgeql.compiler.typegen'):
        m = repo.module(mn)
        for fn in repo._funcs_of(m):
            for loop in ast.walk(fn.node):
                if not isinstance(loop, (ast.For, ast.While)):
                    continue
                calls = [c for c in ast.walk(loop) if isinstance(c, ast.Call)
                         and isinstance(c.func, ast.Attribute)
                         and c.func.attr ==
                         'find_common_implicitly_castable_type'
                         and isinstance(c.func.value, ast.Name)]
                if not calls:
                    continue
                acc = calls[0].func.value.id
                n_f += 1
                ctx.saw(fn)
                g = CFG(fn.node)
                head = [x for x in g.nodes_of(loop)
                        if g.nodes[x].kind in ('for', 'test')]
                upd = [n.id for n in g.nodes if n.kind == 'stmt'
                       and isinstance(n.ast, ast.Assign)
                       and any(isinstance(x, ast.Name) and x.id == acc
                               for t in n.ast.targets for x in ast.walk(t))
                       and any(n.ast is y for y in ast.walk(loop))
                       and not any(n.ast is y for b in getattr(
                           loop, 'orelse', []) for y in ast.walk(b))]
                cn = [n.id for n in g.nodes if calls[0] in g.node_calls(n)]
                if not head:
                    head = [x.id for x in g.nodes if x.ast is getattr(
                        loop, 'test', None)]
                ok = bool(upd) and bool(cn)
                if ok:
                    # from the call, the next arrival at the loop head (or
                    # any normal exit) passes an update of the accumulator,
                    # or the update is the call statement itself
                    ok = all(c in upd or g.always_after(
                        c, upd, exits=set(head) | {g.exit}) for c in cn)
                ctx.ob('C12.R8', f'{fn.qualname}:fold={acc}', ok,
                       f'{fn.qualname} folds find_common_implicitly_'
                       f'castable_type over the members but does not store '
                       f'the result back into `{acc}` in every iteration: '
                       f'the common type of three or more members becomes '
                       f'that of the first and the last only (int16, '
                       f'float32, int32 -> float32 instead of float64)',
                       fn.loc, sample=f'{acc} updated per iteration')
    if n_f < 2:
        raise AnalysisError(f'C12.R8: only {n_f} common-type folds found')
    _r9(repo, ctx)
    _r10(repo, ctx)
    _r11(repo, ctx)
    _r12(repo, ctx)


def _roots(fn_node: ast.AST, name: str, params: Set[str],
           seen: Optional[Set[str]] = None) -> Set[str]:
    """Parameters a local's value is (flow-insensitively) derived from;
    subscript indices and called function names do not count."""
    seen = set() if seen is None else seen
    if name in seen:
        return set()
    seen.add(name)
    if name in params:
        return {name}

    def srcs(e: ast.AST) -> Set[str]:
        out: Set[str] = set()
        st = [e]
        while st:
            x = st.pop()
            if isinstance(x, ast.Name):
                out.add(x.id)
            elif isinstance(x, ast.Subscript):
                st.append(x.value)
            elif isinstance(x, ast.Call):
                if isinstance(x.func, ast.Attribute):
                    st.append(x.func.value)
                st.extend(x.args)
                st.extend(k.value for k in x.keywords)
            else:
                st.extend(ast.iter_child_nodes(x))
        return out

    out: Set[str] = set()
    for n in ast.walk(fn_node):
        tg = val = None
        if isinstance(n, ast.Assign):
            tg, val = n.targets, n.value
        elif isinstance(n, ast.AnnAssign) and n.value is not None:
            tg, val = [n.target], n.value
        elif isinstance(n, (ast.For, ast.comprehension)):
            tg, val = [n.target], n.iter
        if tg is None:
            continue
        if not any(isinstance(x, ast.Name) and x.id == name
                   for t in tg for x in ast.walk(t)):
            continue
        for s in srcs(val):
            out |= _roots(fn_node, s, params, seen)
    return out


def _r9(repo: Repo, ctx) -> None:
    """(a) a tuple rebuilt from its elements takes the element names from
           the same type it takes `named` from;
       (b) instantiating a polymorphic tuple type recurses into each
           polymorphic element (it never substitutes the concrete type for
           the element itself)."""
    ctx.floor('C12.R9', 4)
    n_a = 0
    m = repo.module('edb.edgeql.compiler.casts')
    for fn in repo._funcs_of(m):
        params = set(fn.params())
        tparams = {p for p in params if p.endswith('stype')}
        for c in ast.walk(fn.node):
            if not (isinstance(c, ast.Call) and (call_name(c) or '').endswith(
                    'new_tuple_set') and c.args):
                continue
            nk = kwarg(c, 'named')
            if not (isinstance(nk, ast.Call) and isinstance(
                    nk.func, ast.Attribute) and nk.func.attr == 'is_named'
                    and isinstance(nk.func.value, ast.Name)):
                continue
            T = nk.func.value.id
            lst = norm(c.args[0])
            # the appends that feed this call: the nearest ones above it
            # in the same block nest
            apps = [a for a in ast.walk(fn.node) if isinstance(a, ast.Call)
                    and norm(a.func) == f'{lst}.append' and a.args
                    and isinstance(a.args[0], ast.Call)
                    and (call_name(a.args[0]) or '').endswith('TupleElement')
                    and a.lineno < c.lineno]
            inits = [a.lineno for a in ast.walk(fn.node)
                     if isinstance(a, ast.Assign) and norm(a.targets[0]) ==
                     lst and a.lineno < c.lineno]
            start = max(inits) if inits else 0
            apps = [a for a in apps if a.lineno > start]
            if not apps:
                continue
            ctx.saw(fn)
            for a in apps:
                nm = kwarg(a.args[0], 'name')
                if nm is None:
                    continue
                n_a += 1
                roots: Set[str] = set()
                for x in ast.walk(nm):
                    if isinstance(x, ast.Name):
                        roots |= _roots(fn.node, x.id, params)
                roots &= tparams
                ctx.ob('C12.R9', f'{fn.name}:tuple@L'
                       f'{c.lineno - fn.node.lineno}:names-from={T}',
                       roots == {T},
                       f'{fn.name} rebuilds a tuple that is named like '
                       f'`{T}` but takes its element names from '
                       f'{sorted(roots)}: the inferred tuple type has the '
                       f'other type\'s element names (a cast to '
                       f'tuple<a: int64> yields tuple<0: int64>)', fn.loc,
                       sample=f'name={norm(nm)} <- {sorted(roots)}')
    if n_a < 3:
        raise AnalysisError(f'C12.R9: only {n_a} rebuilt tuples found in '
                            f'casts.py')
    # (b)  (Range / MultiRange wrap the concrete type directly: their
    # element is a point scalar and cannot be a collection)
    for cls in ('Tuple', 'Array'):
        f = repo.func(f'edb.schema.types.{cls}._to_nonpolymorphic')
        ctx.saw(f)
        P = f.params()
        conc = P[2] if len(P) > 2 else None
        if conc is None:
            raise AnalysisError(f'C12.R9: {cls}._to_nonpolymorphic signature')
        uses = [x for x in ast.walk(f.node) if isinstance(x, ast.Name)
                and x.id == conc and isinstance(x.ctx, ast.Load)]
        rec_args = set()
        for c in ast.walk(f.node):
            if isinstance(c, ast.Call) and isinstance(c.func, ast.Attribute) \
                    and c.func.attr == 'to_nonpolymorphic':
                for a in list(c.args) + [k.value for k in c.keywords]:
                    rec_args |= {id(x) for x in ast.walk(a)}
        bad = [x for x in uses if id(x) not in rec_args]
        ctx.ob('C12.R9', f'{cls}._to_nonpolymorphic:recurses', bool(uses)
               and not bad,
               f'{cls}._to_nonpolymorphic uses `{conc}` other than as the '
               f'argument of the recursive to_nonpolymorphic of an element: '
               f'a polymorphic element that is itself a collection '
               f'(tuple<int64, array<anytype>>, array<tuple<int64, '
               f'anytype>>) is replaced by the bare concrete type, so the '
               f'inferred type loses a collection level', f.loc,
               sample=f'{len(uses)} uses, all recursive arguments')


def _r10(repo: Repo, ctx) -> None:
    """C12.R10
    (a) binding of `anytype`: when an argument resolves the polymorphic
        parameter to a type that differs from the one bound so far, the
        argument is accepted only through the common-type search, which
        *widens* the binding (`{[1], [2.5]}` is array<float64>).  Stated as a
        path fact on polyres._get_cast_distance: under the assumption that
        the two types differ, no accepting return is reached without passing
        find_common_implicitly_castable_type.
    (b) the common type of a range and a multirange is a multirange: the
        collection class built by Range.find_common_implicitly_castable_type
        is chosen from `other`, never from `self` alone (self is a Range
        there)."""
    from ..absint import Facts, closed_edges
    ctx.floor('C12.R10', 2)
    gd = repo.functions.get(
        'edb.edgeql.compiler.polyres.try_bind_call_args._get_cast_distance')
    if gd is None:
        raise AnalysisError('C12.R10: _get_cast_distance not found')
    ctx.saw(gd)
    g = CFG(gd.node)
    facts = {'basic_matching_only': False, 'in_polymorphic_func': False,
             'param_type.is_polymorphic(schema)': True,
             'arg_type.test_polymorphic(schema, param_type)': True,
             'resolved is None': False,
             'resolved_poly_base_type == resolved': False}
    fx = Facts(facts, fn_node=gd.node)
    search = [n.id for n in g.nodes if n.kind == 'stmt' and n.ast is not None
              and 'find_common_implicitly_castable_type' in norm(n.ast)]
    accept = [n.id for n in g.nodes if n.kind == 'stmt' and isinstance(
        n.ast, ast.Return) and n.ast.value is not None and norm(
        n.ast.value) != '-1']
    if not search or not accept:
        raise AnalysisError('C12.R10: common-type search / accepting '
                            'returns of _get_cast_distance not found')
    if 'resolved_poly_base_type == resolved' not in norm(gd.node):
        raise AnalysisError('C12.R10: _get_cast_distance no longer compares '
                            'the bound type with the resolved one')
    seen = g.reachable([g.entry], avoid=set(search),
                       avoid_edges=closed_edges(g, fx))
    direct = sorted(g.nodes[i].lineno for i in seen & set(accept))
    ctx.ob('C12.R10', '_get_cast_distance:differing-binding-goes-through-'
           'common-type', not direct,
           f'an argument whose type differs from the type `anytype` is '
           f'bound to so far is accepted (lines {direct}) without the '
           f'common-type search that widens the binding: the later, wider '
           f'argument is then cast *down* to the first one\'s type and the '
           f'reported element type does not cover the values',
           gd.loc, sample='accept only after find_common_implicitly_'
                          'castable_type')
    # (b)
    rc = repo.cls('edb.schema.types.Range')
    fc = rc.methods.get('find_common_implicitly_castable_type')
    if fc is None:
        raise AnalysisError('C12.R10: Range.find_common_implicitly_castable_'
                            'type not found')
    ctx.saw(fc)
    from ..model import inline_locals
    other = fc.params()[1]
    n = 0
    for c in ast.walk(fc.node):
        if isinstance(c, ast.Call) and isinstance(c.func, ast.Attribute) \
                and c.func.attr == 'from_subtypes':
            n += 1
            src = inline_locals(fc.node, c.func.value)
            # every definition of the class variable mentions `other`
            defs = [a for a in ast.walk(fc.node) if isinstance(
                a, (ast.Assign, ast.AnnAssign)) and norm(
                a.targets[0] if isinstance(a, ast.Assign) else a.target) ==
                norm(c.func.value)]
            ok = all(any(isinstance(x, ast.Name) and x.id == other
                         for x in ast.walk(a.value)) for a in defs) \
                if defs else (other in src)
            ctx.ob('C12.R10', 'Range.find_common:class-from-other', ok,
                   f'the common type of a range with `{other}` is built as '
                   f'`{src[:50]}`, which does not depend on `{other}`: with '
                   f'a multirange on the other side the result is a range, '
                   f'so `[<range>$r, <multirange>$m]` is typed '
                   f'array<range<..>> and the multirange value does not fit',
                   f'{fc.module.rel()}:{c.lineno}', sample=src[:50])
    if n < 1:
        raise AnalysisError('C12.R10: from_subtypes call not found')



def _r11(repo: Repo, ctx) -> None:
    """C12.R11 element-wise comparisons of two collection types compare the
    number of elements first.  `zip` stops at the shorter operand: a
    subtype / distance / compatibility test that walks
    `zip(a.get_subtypes(), b.get_subtypes())` of two *different* types
    without a length comparison answers for the common prefix only, so
    `tuple<int64, str>` passes for `tuple<int64>` -- an argument of the wrong
    arity is accepted without a cast and the call is typed with the
    parameter's tuple type.  Most siblings in edb/schema/types.py compare
    `len(..)` first; the rule demands it of all of them."""
    ctx.floor('C12.R11', 6)
    m = repo.module('edb.schema.types')
    n = 0
    SUB = ('get_subtypes', 'iter_subtypes', 'get_element_types')

    def origin(fn, e):
        """receiver text of the subtype-list expression e (through a
        single-assignment local), or None"""
        for _ in range(3):
            if isinstance(e, ast.Call) and isinstance(
                    e.func, ast.Attribute) and e.func.attr in SUB:
                return norm(e.func.value)
            if isinstance(e, ast.Call) and isinstance(
                    e.func, ast.Name) and e.func.id in ('list', 'tuple') \
                    and e.args:
                e = e.args[0]
                continue
            if isinstance(e, ast.Name):
                defs = [a.value for a in ast.walk(fn) if isinstance(
                    a, ast.Assign) and any(isinstance(t, ast.Name) and
                                           t.id == e.id for t in a.targets)]
                if len(defs) == 1:
                    e = defs[0]
                    continue
            return None
        return None
    seen_z = set()
    for f in repo._funcs_of(m):
        for z in ast.walk(f.node):
            if not (isinstance(z, ast.Call) and norm(z.func) == 'zip'
                    and len(z.args) == 2) or id(z) in seen_z:
                continue
            seen_z.add(id(z))
            top = f
            while top.parent is not None:
                top = top.parent
            oa, ob = origin(top.node, z.args[0]), origin(top.node, z.args[1])
            if oa is None or ob is None or oa == ob:
                continue
            # used to decide something (not to build a mapping)
            if any(k.arg == 'strict' for k in z.keywords):
                continue
            txt = norm(top.node)
            names = [norm(a) for a in z.args]
            guarded = any(
                isinstance(c, ast.Compare) and norm(c).count('len(') >= 2
                for c in ast.walk(top.node))
            n += 1
            ctx.saw(top)
            ctx.ob('C12.R11', f'{top.qualname.split(".", 3)[-1]}:'
                   f'zip-arity@{names[0][:24]}', guarded,
                   f'{top.name} walks zip({names[0][:40]}, {names[1][:40]}) '
                   f'of two different collection types without comparing '
                   f'their lengths: the answer is for the common prefix '
                   f'only (tuple<int64, str> passes for tuple<int64>)',
                   f'{f.module.rel()}:{z.lineno}',
                   sample='len(a) == len(b) checked first')
    if n < 6:
        raise AnalysisError(f'C12.R11: only {n} element-wise comparisons '
                            f'of two subtype lists found')



def _r12(repo: Repo, ctx) -> None:
    """C12.R12 the common type of two collection types is computed from
    their element types.  `find_common_implicitly_castable_type` of the
    collection classes may hand back one of its two operands unchanged only
    when the two are equal: "castable one way" is not "is the common type"
    (user scalars over one base are implicitly castable into each other in
    both directions, their common type is the base) -- a value of the other
    operand's element type is then reported under the wrong type."""
    ctx.floor('C12.R12', 2)
    m = repo.module('edb.schema.types')
    n = 0
    for cname in ('Array', 'Tuple', 'Range', 'MultiRange'):
        c = m.classes.get(cname)
        f = c.methods.get('find_common_implicitly_castable_type') if c \
            else None
        if f is None:
            continue
        g = CFG(f.node)
        other = f.params()[1]
        eq = [t.id for t in g.nodes if t.kind == 'test' and norm(t.ast) in (
            f'self == {other}', f'{other} == self')]
        for r in g.nodes:
            if r.kind != 'stmt' or not isinstance(r.ast, ast.Return) or \
                    not isinstance(r.ast.value, ast.Tuple):
                continue
            last = r.ast.value.elts[-1]
            if not (isinstance(last, ast.Name) and last.id in ('self', other)):
                continue
            n += 1
            ok = any(g.edge_dominates(t, 'T', r.id) for t in eq)
            ctx.saw(f)
            ctx.ob('C12.R12', f'{cname}.find_common_implicitly_castable_type:'
                   f'returns-{last.id}', ok,
                   f'{cname}.find_common_implicitly_castable_type hands back '
                   f'`{last.id}` as the common type on a path that has not '
                   f'established that the two types are equal: for element '
                   f'types that are merely castable into each other the '
                   f'common type is neither operand',
                   f'{f.module.rel()}:{r.lineno}',
                   sample=f'return .., {last.id} only under self == {other}')
    if n < 2:
        raise AnalysisError(f'C12.R12: only {n} operand-returning exits of '
                            f'the collection common-type methods found')
