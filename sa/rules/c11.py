"""C11 — SDL is declarative: declaration order does not matter.

  R1 SDL declaration kinds are exhaustive in the passes of sdl_to_ddl
  R2 dependency handlers visit every expression-bearing field the SDL
     grammar can set
  R3 dependency sets are normalised (sorted) before the topological sort
  R4 a CycleError from that sort becomes an InvalidDefinitionError
  R5 dependencies on inherited items range over the transitive ancestor set
  R6 the expression tracer has a handler for every expression class the
     grammar builds and each handler visits every AST-bearing child
  R7 WITH MODULE establishes the default module where name resolution
     reads it
  R8 the sort itself (C20's rules on edb.common.topological)
"""
from __future__ import annotations

import ast
from typing import Dict, List, Optional, Set

from .. import visitors as V
from ..cfg import CFG
from ..model import (AnalysisError, FuncInfo, Repo, call_name, dotted, kwarg,
                     norm, walk_no_nested)

DECL = 'edb.edgeql.declarative'
QLAST = 'edb.edgeql.ast'
SDLG = ['edb.edgeql.parser.grammar.sdl', 'edb.edgeql.parser.grammar.commondl']

# SDL-constructed ObjectDDL kinds that only occur nested inside another
# declaration (they never reach the module-level kind chain)
NESTED = {
    'CreateConcreteLink', 'CreateConcreteProperty',
    'CreateConcreteUnknownPointer', 'CreateConcreteConstraint',
    'CreateConcreteIndex', 'CreateAccessPolicy', 'CreateTrigger',
    'CreateRewrite', 'CreateAnnotationValue',
}
# module-block members routed before sdl_to_ddl by apply_sdl.collect
ROUTED_EARLY = {'ModuleDeclaration', 'CreateExtension', 'CreateFuture'}

# (class, field): expression-bearing fields the dependency tracer does not
# visit today.  Audited baseline, NOT proof that they are harmless: each is
# a candidate order-dependence that cannot be executed in this sandbox.
AUDITED_UNTRACED = {
    ('CreateAnnotationValue', 'value'):
        'annotation values must be constant expressions; the dependency on '
        'the annotation itself is added by _register_item',
    ('CreateConstraint', 'params'):
        'parameter types of an abstract constraint are not traced '
        '(candidate: a user-defined scalar used as parameter type declared '
        'later in the document)',
    ('CreateIndex', 'params'):
        'parameter types of an abstract index are not traced (same '
        'candidate)',
    ('CreateConstraint', 'subjectexpr'):
        'the ON expression of an *abstract* constraint falls to '
        'trace_default and is not traced (candidate: a user function used '
        'in it and declared later)',
    ('CreateIndex', 'kwargs'):
        'keyword arguments of an abstract index declaration are constants '
        'in practice; not traced',
}


def run(repo: Repo, ctx) -> None:
    ctx.explanation = (
        'Decides for the SDL-to-DDL pipeline: R1 every declaration kind the '
        'SDL grammar can place in a module block hits a non-raising arm of '
        'the kind chain in sdl_to_ddl (or is routed earlier by '
        'apply_sdl.collect), is registered under the namesake tracer class, '
        'and kinds that own pointers/bases have a layout handler; R2 for '
        'every SDL-producible declaration class the fields typed as '
        'expression / type expression / parameter list that the SDL grammar '
        'can set are read by its dependency handler (resolved through the '
        'singledispatch MRO, including the silent catch-all) or by '
        '_register_item\'s generic walk, with an audited baseline of five '
        'untraced fields; R3 each entry\'s deps/weak_deps are rebound to a '
        'sorted OrderedSet on every path before topological.sort; R4 a '
        'CycleError from that sort is converted to InvalidDefinitionError '
        'and never swallowed. Completeness of name resolution inside the '
        'tracer is NOT decided.')
    ctx.not_decided = ['name resolution inside qltracer.trace_refs',
                       'the three audited untraced fields (candidates)']
    m = repo.module(DECL)
    sd = repo.func(f'{DECL}.sdl_to_ddl')
    ctx.saw(sd)
    G = V.constructed(repo, SDLG, 'qlast', QLAST)
    oddl = f'{QLAST}.ObjectDDL'
    sdl_kinds = sorted(q for q in G if oddl in repo.mro(q)
                       and q.split('.')[-1].startswith('Create'))
    if len(sdl_kinds) < 15:
        raise AnalysisError(f'C11: only {len(sdl_kinds)} SDL declaration '
                            f'kinds found')

    # ---- R1 -------------------------------------------------------------
    ctx.floor('C11.R1', 12)
    arms: Dict[str, str] = {}
    else_raises = False
    for n in ast.walk(sd.node):
        if isinstance(n, ast.If) and norm(n.test).startswith(
                'isinstance(decl_ast, qlast.') and len(n.body) == 1 \
                and isinstance(n.body[0], ast.Assign) and norm(
                    n.body[0].targets[0]) == 'ctx.objects[fq_name]':
            cls = norm(n.test.args[1]).split('.')[-1]
            v = n.body[0].value
            arms[cls] = norm(v.func).split('.')[-1] if isinstance(
                v, ast.Call) else '?'
            if n.orelse and not (len(n.orelse) == 1 and isinstance(
                    n.orelse[0], ast.If)):
                else_raises = any(isinstance(x, ast.Raise)
                                  for x in n.orelse)
    if len(arms) < 8:
        raise AnalysisError('C11.R1: kind chain of sdl_to_ddl not found')
    ctx.ob('C11.R1', 'sdl_to_ddl:else-raises', else_raises,
           'an unknown declaration kind is silently skipped by the kind '
           'chain', sd.loc, sample='else: raise AssertionError')
    for cls, tr in sorted(arms.items()):
        want = cls[len('Create'):]
        ctx.ob('C11.R1', f'sdl_to_ddl:arm={cls}', tr == want,
               f'{cls} is registered as tracer object {tr}, expected '
               f'{want}', sd.loc, sample=f'{cls} -> qltracer.{tr}')
    for q in sdl_kinds:
        nm = q.split('.')[-1]
        if nm in NESTED or nm in ROUTED_EARLY:
            continue
        ctx.ob('C11.R1', f'kind={nm}', nm in arms,
               f'SDL can declare {nm} in a module block but sdl_to_ddl\'s '
               f'kind chain has no arm for it: the document is rejected '
               f'(AssertionError) or the object is never registered',
               f'{G[q]["<ctor>"][0][0]}:{G[q]["<ctor>"][0][1]}',
               sample='has arm')
    # early routing exists for the three routed kinds
    col = repo.functions.get('edb.schema.ddl.apply_sdl.collect')
    if col is None:
        raise AnalysisError('apply_sdl.collect not found')
    routed = {norm(n.test.args[1]).split('.')[-1] for n in ast.walk(col.node)
              if isinstance(n, ast.If) and norm(n.test).startswith(
                  'isinstance(decl, qlast.')}
    ctx.ob('C11.R1', 'apply_sdl.collect:routes', ROUTED_EARLY <= routed,
           f'apply_sdl.collect routes {sorted(routed)}; expected '
           f'{sorted(ROUTED_EARLY)}', col.loc, sample=sorted(routed))
    # layout handlers for kinds that own pointers / bases
    lay = V.singledispatch_registry(repo, DECL, 'trace_layout')
    for nm in ('CreateObjectType', 'CreateLink', 'CreateScalarType',
               'CreateProperty'):
        q = f'{QLAST}.{nm}'
        h = V.dispatch(repo, lay, q)
        ctx.ob('C11.R1', f'trace_layout:{nm}', h is not None,
               f'{nm} has no layout handler: its pointers and bases are '
               f'invisible to dependency tracing (the fallback is a silent '
               f'pass)', m.rel(), sample=h.name if h else None)
    # every module's declarations go through both passes
    loops = [n for n in ast.walk(sd.node) if isinstance(n, ast.For)
             and norm(n.iter) == 'documents.items()']
    ctx.ob('C11.R1', 'sdl_to_ddl:three-passes', len(loops) == 3,
           f'sdl_to_ddl iterates the documents {len(loops)} times '
           f'(register, layout, dependencies expected)', sd.loc,
           sample=f'{len(loops)} passes')

    # ---- R2 -----------------------------------------------------------------
    ctx.floor('C11.R2', 20)
    reg = V.singledispatch_registry(repo, DECL, 'trace_dependencies')
    if len(reg) < 8:
        raise AnalysisError('C11.R2: trace_dependencies registry not found')
    fr = V.FieldReads(repo)
    ri = repo.func(f'{DECL}._register_item')
    generic = fr.reads(ri, 'decl') | fr.reads(ri, 'op')
    generic_ok = {'commands', 'bases'} <= generic
    ctx.ob('C11.R2', '_register_item:generic-walk', generic_ok,
           '_register_item no longer walks decl.commands / bases', ri.loc,
           sample=sorted(generic & {'commands', 'bases', 'name'}))
    domain = [q for q in sorted(G) if (oddl in repo.mro(q)
                                       or q == f'{QLAST}.SetField')
              and f'{QLAST}.Base' in repo.mro(q)]
    for q in domain:
        nm = q.split('.')[-1]
        if nm in ROUTED_EARLY or nm.startswith(('Alter', 'Drop')):
            continue
        h = V.dispatch(repo, reg, q)
        if h is None:
            ctx.fail('C11.R2', f'{nm}:handler',
                     f'{nm} has no dependency handler (trace_dependencies '
                     f'raises NotImplementedError)', m.rel())
            continue
        ctx.saw(h)
        fields = repo.class_fields(q)
        gset = {f for f in G[q] if not f.startswith('<')}
        # reads by the handler itself: what _register_item touches on the
        # declaration for other purposes does not count as tracing
        fr2 = V.FieldReads(repo, value_only=True)
        fr2.memo[(ri.qualname, 'decl')] = set()
        fr2.memo[(ri.qualname, 'op')] = set()
        reads = fr2.reads(h, h.params()[0])
        for f, (_own, ann) in sorted(fields.items()):
            a = norm(ann.annotation)
            if not any(t in a for t in ('Expr', 'TypeName', 'FuncParam')):
                continue
            if f not in gset:
                continue
            if f in ('bases', 'commands'):
                ok = f in generic
                how = '_register_item generic walk'
            else:
                ok = f in reads
                how = h.name
                if not ok and (nm, f) in AUDITED_UNTRACED:
                    ctx.ob('C11.R2', f'{nm}.{f}', True,
                           loc=h.loc, sample='audited baseline: ' +
                           AUDITED_UNTRACED[(nm, f)], nontrivial=False)
                    continue
            ctx.ob('C11.R2', f'{nm}.{f}', ok,
                   f'the SDL grammar can set {nm}.{f} ({a[:40]}) but the '
                   f'dependency handler {h.name} never reads it: a '
                   f'declaration referenced only from there is not ordered '
                   f'before {nm} (fails for some permutation of the '
                   f'document)', h.loc, sample=f'read by {how}')
    # expressions collected by a handler reach _register_item
    for q, h in sorted(reg.items()):
        if h.name == 'trace_default':
            continue
        calls = [c for c in ast.walk(h.node) if isinstance(c, ast.Call)
                 and call_name(c) == '_register_item']
        ok = bool(calls)
        for c in calls:
            hd = kwarg(c, 'hard_dep_exprs')
            built = [n for n in ast.walk(h.node) if isinstance(n, ast.Call)
                     and call_name(n) in ('ExprDependency', 'TypeDependency',
                                          'FunctionDependency')]
            if built and hd is None:
                ok = False
        ctx.ob('C11.R2', f'{h.name}:hands-exprs-over', ok,
               f'{h.name} builds expression dependencies but does not pass '
               f'them to _register_item', h.loc,
               sample='_register_item(hard_dep_exprs=...)')

    # ---- R3 ------------------------------------------------------------------
    ctx.floor('C11.R3', 2)
    g = CFG(sd.node)
    sorts = [n.id for n in g.nodes if any(
        norm(c.func) == 'topological.sort' and c.args
        and norm(c.args[0]) == 'ddlgraph' for c in g.node_calls(n))]
    if not sorts:
        raise AnalysisError('C11.R3: topological.sort(ddlgraph) not found')
    for attr in ('deps', 'weak_deps'):
        norms = [n.id for n in g.nodes if n.kind == 'stmt' and isinstance(
            n.ast, ast.Assign) and norm(n.ast.targets[0]) ==
            f'ddlentry.{attr}' and norm(n.ast.value).startswith(
                'OrderedSet(sorted(')]
        loop = [x.id for x in g.nodes if x.kind == 'for'
                and norm(x.ast.iter) == 'ddlgraph.values()']
        ok = bool(norms) and bool(loop) and all(
            g.edge_dominates(loop[0], 'F', s) for s in sorts) and all(
            g.always_after(loop[0], norms, exits=set(sorts) | {g.exit},
                           first_labels={'T'}) for _ in [0])
        ctx.ob('C11.R3', f'sdl_to_ddl:normalise-{attr}', ok,
               f'ddlentry.{attr} is not rebound to OrderedSet(sorted(...)) '
               f'for every entry before the sort: the order (and the '
               f'reported cycle) would depend on set iteration order',
               sd.loc, sample=f'{attr} = OrderedSet(sorted({attr}))')

    # ---- R4 -------------------------------------------------------------------
    ctx.floor('C11.R4', 1)
    handlers = [(t, h) for t in ast.walk(sd.node) if isinstance(t, ast.Try)
                for h in t.handlers if h.type is not None
                and 'CycleError' in norm(h.type)]
    ok = len(handlers) == 1
    if ok:
        t, h = handlers[0]
        ok = any(isinstance(x, ast.Raise) and 'InvalidDefinitionError' in
                 norm(x) for x in ast.walk(h)) and any(
            'topological.sort' in norm(s) for s in t.body)
        hg = CFG(_B(h.body))
        ok = ok and hg.exit not in hg.reachable([hg.entry])
    ctx.ob('C11.R4', 'sdl_to_ddl:cycle-reported', ok,
           'a dependency cycle between declarations is not reported as '
           'InvalidDefinitionError (or can be swallowed)', sd.loc,
           sample='except CycleError -> raise InvalidDefinitionError')
    others = [f for f in repo._funcs_of(m) if f is not sd for t in
              ast.walk(f.node) if isinstance(t, ast.ExceptHandler)
              and t.type is not None and 'CycleError' in norm(t.type)]
    ctx.ob('C11.R4', 'declarative:no-other-cycle-handler', not others,
           f'CycleError is also caught in {[f.name for f in others]}',
           m.rel(), sample='single handler', nontrivial=False)


    _r5(repo, ctx, m, sd, ri)
    _r6(repo, ctx)
    _r7(repo, ctx)
    _r9(repo, ctx)
    dep_tables_rule(repo, ctx, 'C11.R9')
    _r10(repo, ctx)
    _r13(repo, ctx)
    _r14(repo, ctx)
    # ---- R8 -------------------------------------------------------------------
    from . import c20
    c20.run(repo, _Sub(ctx, 'C11.R8'))


TRACER = 'edb.edgeql.tracer'
EXPR_GRAMMAR = ['edb.edgeql.parser.grammar.expressions',
                'edb.edgeql.parser.grammar.statements',
                'edb.edgeql.parser.grammar.commondl',
                'edb.edgeql.parser.grammar.sdl']

# (class, field): AST-bearing children a trace handler does not visit today
TRACE_UNVISITED = {
    ('InternalGroupQuery', 'where'):
        'FOR GROUP internal syntax (test mode only); not visited',
    ('InternalGroupQuery', 'orderby'):
        'FOR GROUP internal syntax (test mode only); not visited',
}


def _r5(repo, ctx, m, sd, ri):
    ctx.floor('C11.R5', 5)
    ga = repo.func(f'{DECL}.get_ancestors')
    ctx.saw(ga)
    # (a) the closure is transitive: the result accumulates a recursive call
    #     for every member of the parent set
    rec = False
    for n in ast.walk(ga.node):
        if isinstance(n, ast.For):
            it = norm(n.iter)
            for x in ast.walk(n):
                if isinstance(x, ast.Call) and call_name(x) == \
                        'get_ancestors' and x.args and isinstance(
                            n.target, ast.Name) and norm(x.args[0]) == \
                        n.target.id:
                    # accumulated into the returned name
                    par = _parent_stmt(n, x)
                    if isinstance(par, ast.AugAssign) and isinstance(
                            par.op, ast.BitOr) or (
                            isinstance(par, ast.Expr) and 'update' in
                            norm(par)):
                        rec = 'parents' in it or 'parent' in it
    ctx.ob('C11.R5', 'get_ancestors:transitive', bool(rec),
           'get_ancestors does not accumulate the ancestors of every parent '
           '(the set is not transitively closed)', ga.loc,
           sample='result |= get_ancestors(fq_parent, ...)')
    # (b) ancestors are computed for every key of ctx.parents, between the
    #     layout pass and the dependency pass
    pop = [n for n in ast.walk(sd.node) if isinstance(n, ast.For)
           and norm(n.iter).startswith('ctx.parents')
           and any(isinstance(x, ast.Assign) and norm(x.targets[0]).startswith(
               'ctx.ancestors[') and isinstance(x.value, ast.Call)
               and call_name(x.value) == 'get_ancestors' for x in n.body)]
    ok = len(pop) == 1
    if ok:
        g = CFG(sd.node)
        lay = [x.id for x in g.nodes if any(
            call_name(c) == 'trace_layout' for c in g.node_calls(x))]
        dep = [x.id for x in g.nodes if any(
            call_name(c) == 'trace_dependencies' for c in g.node_calls(x))]
        pn = g.nodes_of(pop[0])
        ok = bool(lay and dep and pn) and all(
            g.always_before(d, [pn[0]]) for d in dep) and not any(
            l in g.reachable([pn[0]]) for l in lay)
    ctx.ob('C11.R5', 'sdl_to_ddl:ancestors-closed-before-deps', ok,
           'ctx.ancestors is not computed for every declared object after '
           'the layout pass and before dependency tracing', sd.loc,
           sample='for obj_name in ctx.parents: ctx.ancestors[obj_name] = '
                  'get_ancestors(...)')
    # (c) readers: inherited-item lookups use ctx.ancestors; ctx.parents is
    #     read only for the direct-bases dependency and by the closure
    for f in repo._funcs_of(m):
        for n in ast.walk(f.node):
            if isinstance(n, ast.Attribute) and n.attr == 'parents' \
                    and norm(n.value) == 'ctx' and isinstance(
                        n.ctx, ast.Load):
                stmt = _stmt_of(f.node, n)
                txt = norm(stmt) if stmt is not None else ''
                ok = (
                    f.name.startswith('trace_layout')
                    or f.name in ('sdl_to_ddl', '_trace_item_layout')
                    or (isinstance(stmt, ast.Assign)
                        and txt.startswith('ctx.parents['))
                    or _under_hasattr_bases(f.node, n))
                ctx.ob('C11.R5', f'{f.name}:reads-ctx.parents', ok,
                       f'{f.name} derives a dependency from ctx.parents '
                       f'(direct bases only): an item inherited through an '
                       f'intermediate type that does not redeclare it is not '
                       f'ordered before its overload', f.loc_of(n)
                       if hasattr(f, 'loc_of') else f.loc,
                       sample=txt[:80])
    for fn, want in (('_register_item', 3), ('_get_pointer_deps', 1)):
        f = repo.func(f'{DECL}.{fn}')
        cnt = sum(1 for n in ast.walk(f.node) if isinstance(n, ast.Attribute)
                  and n.attr == 'ancestors' and norm(n.value) == 'ctx')
        ctx.ob('C11.R5', f'{fn}:uses-ancestors', cnt >= want,
               f'{fn} consults ctx.ancestors {cnt} time(s), {want} expected '
               f'(overloaded item, view deps, constraint deps / inherited '
               f'pointer)', f.loc, sample=f'{cnt} reads')
    # the overloaded-item loop
    found = False
    for n in ast.walk(ri.node):
        if isinstance(n, ast.For) and any(
                isinstance(c, ast.Call) and call_name(c).endswith('qualify_name')
                and c.args and isinstance(n.target, ast.Name)
                and norm(c.args[0]) == n.target.id for c in ast.walk(n)):
            from ..model import inline_locals
            src = inline_locals(ri.node, n.iter)
            found = True
            ctx.ob('C11.R5', '_register_item:overload-bases',
                   'ctx.ancestors' in src,
                   f'same-named inherited items are looked up over '
                   f'{src[:60]} instead of the transitive ancestor set',
                   ri.loc, sample=src[:80])
    if not found:
        raise AnalysisError('C11.R5: overloaded-item loop of _register_item '
                            'not found')


def _r9(repo, ctx):
    """Bookkeeping of the SDL pipeline that is visible in shape:
       (a) a qualified name built for an object takes module and name from
           the same object;
       (b) a forked tracer context carries every field over like-for-like;
       (c) the per-module declaration lists are only ever extended."""
    ctx.floor('C11.R9', 6)
    # (a)
    n_q = 0
    for mn in (DECL, TRACER):
        m = repo.module(mn)
        for f in repo._funcs_of(m):
            for c in ast.walk(f.node):
                if not (isinstance(c, ast.Call) and (call_name(c) or ''
                                                     ).endswith('QualName')):
                    continue
                mod = kwarg(c, 'module')
                nam = kwarg(c, 'name')
                if mod is None or nam is None:
                    continue
                if not (isinstance(mod, ast.Attribute) and mod.attr ==
                        'module' and isinstance(mod.value, ast.Name)):
                    continue
                recv = {x.value.id for x in ast.walk(nam)
                        if isinstance(x, ast.Attribute) and x.attr == 'name'
                        and isinstance(x.value, ast.Name)}
                if not recv or mod.value.id in ('ctx', 'self'):
                    continue
                n_q += 1
                ok = mod.value.id in recv
                ctx.ob('C11.R9', f'{f.name}:qualname@L'
                       f'{c.lineno - f.node.lineno}', ok,
                       f'{f.name} builds a qualified name with the module '
                       f'of `{mod.value.id}` and the name of '
                       f'{sorted(recv)}: for an object in another module '
                       f'the name does not exist, so the dependency on it '
                       f'is silently dropped and the order depends on the '
                       f'order of the module blocks', f.loc,
                       sample=norm(c)[:70])
    if n_q < 1:
        raise AnalysisError('C11.R9: no qualified-name construction with '
                            'attribute sources found')
    # (b)
    fk = repo.func(f'{TRACER}._fork_context')
    ctx.saw(fk)
    src = fk.params()[0]
    new = None
    for a in ast.walk(fk.node):
        if isinstance(a, ast.Assign) and isinstance(a.value, ast.Call) and \
                call_name(a.value) == 'TracerContext':
            new = norm(a.targets[0])
            for k in a.value.keywords:
                if k.arg is None:
                    continue
                used = {x.attr for x in ast.walk(k.value) if isinstance(
                    x, ast.Attribute) and norm(x.value) == src}
                ctx.ob('C11.R9', f'_fork_context:{k.arg}', used == {k.arg},
                       f'the forked tracer context takes `{k.arg}` from '
                       f'{sorted(used)} of the parent', fk.loc,
                       sample=f'{k.arg}={norm(k.value)[:30]}')
    if new is None:
        raise AnalysisError('C11.R9: _fork_context construction not found')
    for a in ast.walk(fk.node):
        if isinstance(a, ast.Assign) and isinstance(
                a.targets[0], ast.Attribute) and norm(
                a.targets[0].value) == new:
            fld = a.targets[0].attr
            ok = norm(a.value) == f'{src}.{fld}'
            ctx.ob('C11.R9', f'_fork_context:{fld}', ok,
                   f'the forked context shares `{norm(a.value)}` as its '
                   f'{fld}: weak references found in a sub-expression are '
                   f'recorded as strong ones (or lost), so an acyclic '
                   f'document is rejected as cyclic or ordered wrongly',
                   fk.loc, sample=f'{new}.{fld} = {src}.{fld}')
    # (b') every function of the tracer that derives a context from an
    # existing one (constructs TracerContext from the fields of a context
    # parameter) shares *all* the accumulators the constructor starts empty
    # (`self.refs = set()`, `self.weak_refs = set()`): what is found while
    # tracing inside the derived context must reach the caller
    tc = repo.cls(f'{TRACER}.TracerContext')
    init = tc.methods.get('__init__')
    if init is None:
        raise AnalysisError('C11.R9: TracerContext.__init__ not found')
    accs = set()
    for a in ast.walk(init.node):
        t = a.targets[0] if isinstance(a, ast.Assign) else (
            a.target if isinstance(a, ast.AnnAssign) else None)
        if isinstance(t, ast.Attribute) and norm(t.value) == 'self' and \
                a.value is not None and norm(a.value) in (
                'set()', 'OrderedSet()', '[]', '{}'):
            accs.add(t.attr)
    accs = sorted(accs)
    if len(accs) < 2:
        raise AnalysisError(f'C11.R9: accumulators of TracerContext: {accs}')
    n_der = 0
    for f in repo.modules[TRACER].functions.values():
        ps = f.params()
        if not ps:
            continue
        for a in ast.walk(f.node):
            if not (isinstance(a, ast.Assign) and isinstance(
                    a.value, ast.Call) and call_name(
                    a.value) == 'TracerContext' and isinstance(
                    a.targets[0], ast.Name)):
                continue
            srcs = {norm(x.value) for k in a.value.keywords
                    for x in ast.walk(k.value)
                    if isinstance(x, ast.Attribute) and norm(x.value) in ps}
            if len(srcs) != 1:
                continue
            psrc = srcs.pop()
            nw = a.targets[0].id
            n_der += 1
            ctx.saw(f)
            shared = {t.targets[0].attr for t in ast.walk(f.node)
                      if isinstance(t, ast.Assign) and isinstance(
                          t.targets[0], ast.Attribute) and norm(
                          t.targets[0].value) == nw and norm(
                          t.value) == f'{psrc}.{t.targets[0].attr}'}
            for acc in accs:
                ctx.ob('C11.R9', f'{f.name}:derived-context-shares-{acc}',
                       acc in shared,
                       f'{f.name} builds a tracer context from `{psrc}` '
                       f'without sharing its `{acc}`: dependencies recorded '
                       f'there while tracing inside the derived context '
                       f'never reach the declaration being traced, so '
                       f'whether it is ordered after what it reads depends '
                       f'on the order of the document', f.loc,
                       sample=f'{nw}.{acc} = {psrc}.{acc}')
    if n_der < 2:
        raise AnalysisError('C11.R9: derived tracer contexts not found')
    # (b'') a context manager of the tracer whose yielded context callers
    # assign to (`ctx.path_prefix = ...`, `ctx.module = ...` inside the with
    # block) yields a copy on every path: otherwise the assignment leaks into
    # the enclosing expression and names after a sub-statement resolve
    # against the sub-statement's prefix
    mgrs = {}
    tm = repo.modules[TRACER]
    for f in tm.functions.values():
        if any(norm(d).endswith('contextmanager')
               for d in f.node.decorator_list):
            mgrs[f.name] = f
    mutated = set()
    for f in tm.functions.values():
        for w in ast.walk(f.node):
            if not isinstance(w, ast.With):
                continue
            for it in w.items:
                c = it.context_expr
                if isinstance(c, ast.Call) and call_name(c) in mgrs and \
                        isinstance(it.optional_vars, ast.Name):
                    v = it.optional_vars.id
                    if any(isinstance(a, (ast.Assign, ast.AugAssign)) and any(
                            isinstance(t, ast.Attribute) and norm(
                                t.value) == v for t in (
                                a.targets if isinstance(a, ast.Assign)
                                else [a.target]))
                           for b in w.body for a in ast.walk(b)):
                        mutated.add(call_name(c))
    if not mutated:
        raise AnalysisError('C11.R9: no tracer context manager whose result '
                            'is assigned to was found')
    for name in sorted(mutated):
        f = mgrs[name]
        ctx.saw(f)
        g = CFG(f.node)
        p0 = f.params()[0]
        ys = [n for n in g.nodes if n.kind == 'stmt' and n.ast is not None
              and any(isinstance(x, ast.Yield) for x in ast.walk(n.ast))]
        for y in ys:
            yv = [x for x in ast.walk(y.ast) if isinstance(x, ast.Yield)][0]
            nm = norm(yv.value) if yv.value is not None else ''
            forks = [n.id for n in g.nodes if n.kind == 'stmt' and isinstance(
                n.ast, ast.Assign) and norm(n.ast.targets[0]) == nm and
                isinstance(n.ast.value, ast.Call) and call_name(
                    n.ast.value) in ('_fork_context', 'TracerContext')]
            ok = bool(forks) and g.always_before(y.id, forks)
            ctx.ob('C11.R9', f'{name}:yields-a-copy', ok,
                   f'{name} can yield the caller\'s own context (`{nm}` is '
                   f'not rebound to a fork on every path) although callers '
                   f'assign to the yielded context inside the with block: '
                   f'the assignment (path prefix, module) leaks into the '
                   f'enclosing expression and a later reference is resolved '
                   f'against the wrong type, so its dependency is missed',
                   f.loc, sample=f'{nm} = _fork_context({p0}) dominates yield')
    # (c)
    ap = repo.func('edb.schema.ddl.apply_sdl')
    ctx.saw(ap)
    over = []
    for a in ast.walk(ap.node):
        if isinstance(a, ast.Assign) and isinstance(
                a.targets[0], ast.Subscript) and norm(
                a.targets[0].value) == 'documents':
            # the initial registration of the default module, before any
            # declaration is collected, is the one allowed overwrite
            if a in ap.node.body:
                continue
            over.append(norm(a))
    ctx.ob('C11.R9', 'apply_sdl:documents-only-extended', not over,
           f'apply_sdl rebinds a per-module declaration list while '
           f'collecting ({over}): declarations already collected for that '
           f'module (a fully-qualified top-level declaration, an earlier '
           f'block of the same module) are dropped, depending on their '
           f'order in the document', ap.loc,
           sample='setdefault / append only')


# TypeExpr arms of _get_hard_deps that are documented not to recurse
HARD_DEPS_UNVISITED = {
    ('TypeOf', 'expr'): 'TODO in the source: typeof operands are not traced',
    ('TypeName', 'name'): 'the element name of a named tuple, not a type',
    ('TypeName', 'dimensions'): 'integers',
}


def _r10(repo, ctx):
    """(a) _get_hard_deps visits every type-bearing child of every type
           expression class it handles;
       (b) the set of created modules in sdl_to_ddl is exactly the record
           of the CREATE MODULE commands emitted, and enclosing modules are
           visited before nested ones;
       (c) a name-only guess of the tracer (every pointer called X) is a
           weak reference."""
    from .. import shapes as SH
    ctx.floor('C11.R10', 8)
    # (a)
    hd = repo.func(f'{DECL}._get_hard_deps')
    ctx.saw(hd)
    var = hd.params()[0]
    arms = SH.isinstance_arms(hd.node, var)
    if len(arms) < 3:
        raise AnalysisError('C11.R10: type-expression arms of '
                            '_get_hard_deps not found')
    seen_cls = set()
    for names, arm in arms:
        for nm in sorted(names):
            q = f'{QLAST}.{nm}'
            if q not in repo.classes:
                continue
            seen_cls.add(nm)
            reads = set()
            for s_ in arm.body:
                for y in ast.walk(s_):
                    srcs = []
                    if isinstance(y, (ast.For, ast.comprehension)):
                        srcs = [y.iter]
                    elif isinstance(y, ast.Call):
                        srcs = list(y.args) + [k.value for k in y.keywords]
                    for z in srcs:
                        reads |= {x.attr for x in ast.walk(z)
                                  if isinstance(x, ast.Attribute)
                                  and norm(x.value) == var}
            for f, (_own, ann) in sorted(repo.class_fields(q).items()):
                a = norm(ann.annotation) if ann.annotation is not None \
                    else ''
                if not any(t in a for t in ('TypeExpr', 'Expr', 'ObjectRef',
                                            'TypeName')):
                    continue
                if (nm, f) in HARD_DEPS_UNVISITED:
                    ctx.ob('C11.R10', f'_get_hard_deps:{nm}.{f}', True,
                           loc=hd.loc, nontrivial=False,
                           sample='audited: ' + HARD_DEPS_UNVISITED[(nm, f)])
                    continue
                ctx.ob('C11.R10', f'_get_hard_deps:{nm}.{f}', f in reads,
                       f'the {nm} arm of _get_hard_deps never visits '
                       f'`.{f}`: a type named only there is not a '
                       f'dependency of the pointer, so the pointer may be '
                       f'created before that type for some declaration '
                       f'orders', hd.loc, sample=f'{var}.{f}')
    for sub in repo.subclasses(f'{QLAST}.TypeExpr'):
        nm = sub.split('.')[-1]
        if nm.startswith('_') or nm == 'TypeExpr':
            continue
        ctx.ob('C11.R10', f'_get_hard_deps:arm={nm}', nm in seen_cls,
               f'_get_hard_deps has no arm for qlast.{nm}: its references '
               f'are not dependencies', hd.loc, sample=nm)
    # (b)
    sd = repo.func(f'{DECL}.sdl_to_ddl')
    ctx.saw(sd)
    appends = [c for c in ast.walk(sd.node) if isinstance(c, ast.Call)
               and isinstance(c.func, ast.Attribute) and c.func.attr ==
               'append' and c.args and isinstance(c.args[0], ast.Call)
               and (call_name(c.args[0]) or '').endswith('CreateModule')]
    if not appends:
        raise AnalysisError('C11.R10: CREATE MODULE emission of sdl_to_ddl '
                            'not found')
    # the record: a set whose .add(n) sits next to the append under
    # `if n not in <set>`
    recs = set()
    for c in appends:
        st = _stmt_of(sd.node, c)
        par = _parent_of(sd.node, st)
        ok = False
        nmexpr = None
        k = kwarg(c.args[0], 'name')
        if k is not None:
            inner = kwarg(k, 'name') if isinstance(k, ast.Call) else None
            nmexpr = norm(inner) if inner is not None else norm(k)
        if isinstance(par, ast.If) and isinstance(par.test, ast.Compare) \
                and len(par.test.ops) == 1 and isinstance(
                par.test.ops[0], ast.NotIn) and st in par.body:
            rec = norm(par.test.comparators[0])
            who = norm(par.test.left)
            adds = [x for b in par.body for x in ast.walk(b)
                    if isinstance(x, ast.Call) and norm(x.func) ==
                    f'{rec}.add' and x.args and norm(x.args[0]) == who]
            ok = bool(adds) and nmexpr == who
            if ok:
                recs.add(rec)
        ctx.ob('C11.R10', f'sdl_to_ddl:create-module@L'
               f'{c.lineno - sd.node.lineno}:recorded', ok,
               'sdl_to_ddl emits a CREATE MODULE that is not guarded by / '
               'recorded in the set of created modules: a module is created '
               'twice, or a nested module before its enclosing one, for '
               'some orders of the module blocks', sd.loc,
               sample=norm(st)[:70])
        # enclosing first: the name is a prefix join that grows with an
        # ascending range loop
        loop = par
        while loop is not None and not isinstance(loop, ast.For):
            loop = _parent_of(sd.node, loop)
        asc = False
        if isinstance(loop, ast.For) and isinstance(loop.iter, ast.Call) \
                and call_name(loop.iter) == 'range' and isinstance(
                loop.target, ast.Name):
            i = loop.target.id
            rng = loop.iter.args
            full = (len(rng) == 1 and norm(rng[0]).startswith('len('))
            sl = [x for x in ast.walk(loop) if isinstance(x, ast.Subscript)
                  and isinstance(x.slice, ast.Slice) and x.slice.lower is
                  None and x.slice.upper is not None]
            asc = full and any(norm(x.slice.upper) in (f'{i} + 1', f'1 + {i}')
                               for x in sl)
        ctx.ob('C11.R10', f'sdl_to_ddl:create-module@L'
               f'{c.lineno - sd.node.lineno}:enclosing-first', asc,
               'the CREATE MODULE loop of sdl_to_ddl does not walk every '
               'prefix parts[:i + 1] of the module name in ascending '
               'length: the module itself or one of its enclosing modules '
               'is skipped or emitted after a nested one', sd.loc,
               sample='for i in range(len(parts)): parts[:i + 1]')
    for rec in sorted(recs):
        inits = [a for a in ast.walk(sd.node) if isinstance(a, (
            ast.Assign, ast.AnnAssign)) and norm(
            a.targets[0] if isinstance(a, ast.Assign) else a.target) == rec]
        empty = all(a.value is not None and norm(a.value) in (
            'set()', '{}') or (isinstance(a.value, ast.Set) and
                               not a.value.elts) for a in inits) and inits
        other = [norm(x) for x in ast.walk(sd.node) if isinstance(x, ast.Call)
                 and isinstance(x.func, ast.Attribute) and norm(
                 x.func.value) == rec and x.func.attr in (
                 'update', 'discard', 'remove', 'clear', 'pop')]
        ctx.ob('C11.R10', f'sdl_to_ddl:{rec}:starts-empty', bool(empty)
               and not other,
               f'`{rec}` does not start empty / is changed outside the '
               f'emission guard: a module counted as created without its '
               f'CREATE MODULE having been emitted lets a nested module be '
               f'created first when its block comes first', sd.loc,
               sample=f'{rec} = set()')
    # (c)
    tm = repo.module(TRACER)
    n_c = 0
    for f in repo._funcs_of(tm):
        for c in ast.walk(f.node):
            if not (isinstance(c, ast.Call) and isinstance(
                    c.func, ast.Attribute) and c.func.attr in (
                    'update', '__ior__') and c.args):
                continue
            a0 = c.args[0]
            if not (isinstance(a0, ast.Call) and norm(a0.func).endswith(
                    '.pointers.get')):
                continue
            n_c += 1
            ok = norm(c.func.value).endswith('.weak_refs')
            ctx.ob('C11.R10', f'{f.name}:name-guess@L'
                   f'{c.lineno - f.node.lineno}', ok,
                   f'{f.name} records every pointer with a matching short '
                   f'name (`{norm(a0)[:40]}`) in `{norm(c.func.value)}`: '
                   f'the guess is a hard dependency, so a valid document '
                   f'is rejected as cyclic (the declaration can depend on '
                   f'itself) or ordered by a dependency that does not '
                   f'exist', f.loc, sample=norm(c)[:70])
    if n_c < 3:
        raise AnalysisError('C11.R10: name-guess fallbacks of the tracer '
                            'not found')


def _parent_of(root, node):
    for p_ in ast.walk(root):
        for c_ in ast.iter_child_nodes(p_):
            if c_ is node:
                return p_
    return None


def dep_tables_rule(repo, ctx, rule):
    """Every lookup table of the SDL dependency context that is read is also
    filled."""
    dm = repo.module('edb.edgeql.declarative')
    dc = repo.cls('edb.edgeql.declarative.DepTraceContext')
    init = dc.methods.get('__init__')
    tables = [a.targets[0].attr for a in ast.walk(init.node)
              if isinstance(a, ast.Assign) and isinstance(
                  a.targets[0], ast.Attribute)
              and norm(a.targets[0].value) == 'self'
              and isinstance(a.value, ast.Name)]
    reads, writes = {}, {}
    for f in repo._funcs_of(dm):
        if f.cls is dc:
            continue
        for n in ast.walk(f.node):
            if isinstance(n, ast.Attribute) and norm(n.value) == 'ctx' \
                    and n.attr in tables:
                par = _parent_of(f.node, n)
                wr = False
                if isinstance(par, ast.Subscript) and isinstance(
                        par.ctx, ast.Store):
                    wr = True
                if isinstance(par, ast.Attribute) and par.attr in (
                        'add', 'append', 'update', 'setdefault', 'extend'):
                    wr = True
                if isinstance(par, ast.Subscript):
                    pp = _parent_of(f.node, par)
                    if isinstance(pp, ast.Attribute) and pp.attr in (
                            'add', 'append', 'update', 'extend'):
                        wr = True
                (writes if wr else reads).setdefault(n.attr, set()).add(
                    f.name)
    n_t = 0
    for t in tables:
        if t not in reads:
            continue
        n_t += 1
        ctx.ob(rule, f'DepTraceContext.{t}:filled', t in writes,
               f'ctx.{t} is consulted by {sorted(reads[t])[:3]} when '
               f'dependencies are computed but nothing fills it any more: '
               f'the dependencies it used to contribute (e.g. computed '
               f'pointers waiting for the constraints of the types they '
               f'read) are silently dropped, so DESCRIBE AS SDL output is '
               f'ordered wrongly', dm.rel(),
               sample=f'written by {sorted(writes.get(t, []))[:3]}')
    if n_t < 4:
        raise AnalysisError(f'{rule}: dependency tables not recognised')


def _parent_stmt(root, node):
    for n in ast.walk(root):
        if isinstance(n, ast.stmt):
            for c in ast.iter_child_nodes(n):
                if c is node or (not isinstance(c, ast.stmt) and any(
                        x is node for x in ast.walk(c))):
                    return n
    return None


def _stmt_of(root, node):
    best = None
    for n in ast.walk(root):
        if isinstance(n, ast.stmt) and not isinstance(
                n, (ast.FunctionDef, ast.If, ast.For, ast.While, ast.With,
                    ast.Try)):
            if any(x is node for x in ast.walk(n)):
                best = n
    return best


def _under_hasattr_bases(root, node) -> bool:
    for n in ast.walk(root):
        if isinstance(n, ast.If) and 'bases' in norm(n.test) and any(
                x is node for b in n.body for x in ast.walk(b)):
            return True
    return False


def _r6(repo, ctx):
    ctx.floor('C11.R6', 40)
    mods = [x for x in EXPR_GRAMMAR if x in repo.modules]
    G = V.constructed(repo, mods, 'qlast', QLAST)
    reg = V.singledispatch_registry(repo, TRACER, 'trace')
    if len(reg) < 30:
        raise AnalysisError('C11.R6: trace registry not found')
    tm = repo.module(TRACER)
    base = repo.func(f'{TRACER}.trace')
    ok = any(isinstance(x, ast.Raise) for x in base.node.body)
    ctx.ob('C11.R6', 'trace:default-raises', ok,
           'the fallback of qltracer.trace no longer raises: an expression '
           'class without handler is silently untraced', base.loc,
           sample='raise NotImplementedError')
    fr = V.FieldReads(repo)

    def handled(q):
        return V.dispatch(repo, reg, q) is not None

    def ast_bearing(ann) -> bool:
        for x in ast.walk(ann):
            nm = None
            if isinstance(x, ast.Name):
                nm = x.id
            elif isinstance(x, ast.Constant) and isinstance(x.value, str):
                nm = x.value
            if nm and f'{QLAST}.{nm}' in repo.classes:
                q = f'{QLAST}.{nm}'
                if f'{QLAST}.Base' in repo.mro(q) and (
                        handled(q) or any(handled(s)
                                          for s in repo.subclasses(q))):
                    return True
        return False

    for q in sorted(G):
        mro = repo.mro(q)
        nm = q.split('.')[-1]
        if f'{QLAST}.Expr' not in mro:
            continue
        if f'{QLAST}.Command' in mro or f'{QLAST}.DDL' in mro:
            continue      # statements that cannot nest inside an expression
        h = V.dispatch(repo, reg, q)
        ctx.ob('C11.R6', f'trace:{nm}', h is not None,
               f'the grammar builds qlast.{nm} but qltracer.trace has no '
               f'handler for it: a schema expression using it fails with '
               f'NotImplementedError', tm.rel(),
               sample=h.name if h else None)
        if h is None:
            continue
        ctx.saw(h)
        reads = fr.reads(h, h.params()[0])
        gset = {f for f in G[q] if not f.startswith('<')}
        for f, (_own, ann) in sorted(repo.class_fields(q).items()):
            if f not in gset or not ast_bearing(ann.annotation):
                continue
            if f not in reads and (nm, f) in TRACE_UNVISITED:
                ctx.ob('C11.R6', f'{nm}.{f}', True, loc=h.loc,
                       sample='audited baseline: ' +
                       TRACE_UNVISITED[(nm, f)], nontrivial=False)
                continue
            ctx.ob('C11.R6', f'{nm}.{f}', f in reads,
                   f'{h.name} never visits {nm}.{f} '
                   f'({norm(ann.annotation)[:40]}): references made there '
                   f'do not become dependencies, so the declaration they '
                   f'name may be emitted later', h.loc,
                   sample=f'read by {h.name}')
    # statement handlers with a WITH block establish the alias context
    for q, h in sorted(reg.items()):
        if q not in repo.classes or 'aliases' not in repo.class_fields(q):
            continue
        if f'{QLAST}.Query' not in repo.mro(q):
            continue
        calls = [c for c in ast.walk(h.node) if isinstance(c, ast.Call)
                 and call_name(c) == 'alias_context' and len(c.args) >= 2
                 and norm(c.args[1]).endswith('.aliases')]
        deleg = [c for c in ast.walk(h.node) if isinstance(c, ast.Call)
                 and call_name(c).startswith('_trace_')]
        ok = bool(calls)
        if not ok and deleg:
            for c in deleg:
                d = repo.functions.get(f'{TRACER}.{call_name(c)}')
                if d and any(isinstance(x, ast.Call) and call_name(x) ==
                             'alias_context' for x in ast.walk(d.node)):
                    ok = True
        ctx.ob('C11.R6', f'{h.name}:alias-context', ok,
               f'{h.name} traces a statement with a WITH block without '
               f'entering alias_context(node.aliases): WITH MODULE / WITH '
               f'x := ... are ignored while resolving names', h.loc,
               sample='with alias_context(ctx, node.aliases)')


def _r7(repo, ctx):
    ctx.floor('C11.R7', 2)
    ac = repo.func(f'{TRACER}.alias_context')
    ctx.saw(ac)
    tm = repo.module(TRACER)
    readers = []
    for f in repo._funcs_of(tm):
        if f.name in ('_fork_context', 'result_alias_context',
                      'alias_context', '__init__'):
            continue
        for n in ast.walk(f.node):
            if isinstance(n, ast.Attribute) and n.attr == 'module' \
                    and isinstance(n.ctx, ast.Load) \
                    and norm(n.value) in ('ctx', 'self', 'nctx'):
                readers.append(f.name)
    ctx.ob('C11.R7', 'tracer:default-module-readers', True,
           loc=tm.rel(), sample=sorted(set(readers)), nontrivial=False)
    g = CFG(ac.node)
    tests = [n.id for n in g.nodes if n.kind == 'test' and
             'ModuleAliasDecl' in norm(n.ast.test if hasattr(n.ast, 'test')
                                       else n.ast)]
    if not tests:
        raise AnalysisError('C11.R7: ModuleAliasDecl branch of '
                            'alias_context not found')
    t = tests[0]
    sets = [n.id for n in g.nodes if n.kind == 'stmt' and isinstance(
        n.ast, ast.Assign) and any(norm(x) == 'ctx.module'
                                   for x in n.ast.targets)
        and norm(n.ast.value).endswith('.module')]
    named = []
    for n in g.nodes:
        if n.kind != 'test':
            continue
        tx = norm(n.ast.test if hasattr(n.ast, 'test') else n.ast)
        if tx in ('alias.alias', 'alias.alias is not None',
                  'bool(alias.alias)'):
            named.append((n.id, 'T'))
        elif tx in ('(not alias.alias)', 'not alias.alias',
                    'alias.alias is None'):
            named.append((n.id, 'F'))
    loop = [n.id for n in g.nodes if n.kind == 'for']
    ok = True
    if readers:
        ok = bool(sets) and g.always_after(
            t, sets, exits=set(loop) | {g.exit, g.raise_},
            first_labels={'T'}, avoid_edges=named)
    ctx.ob('C11.R7', 'alias_context:default-module', ok,
           f'WITH MODULE <m> (no alias name) does not assign ctx.module, '
           f'which {sorted(set(readers))[:4]} read to resolve unqualified '
           f'names: a dependency on a same-document declaration of the '
           f'aliased module is lost', ac.loc,
           sample='else: ctx.module = alias.module')
    # the forked contexts carry module and modaliases over
    for fn in ('_fork_context',):
        f = repo.func(f'{TRACER}.{fn}')
        kws = {}
        for c in ast.walk(f.node):
            if isinstance(c, ast.Call) and call_name(c) == 'TracerContext':
                kws = {k.arg: norm(k.value) for k in c.keywords}
        ok = kws.get('module') == 'ctx.module' and 'ctx.modaliases' in \
            kws.get('modaliases', '')
        ctx.ob('C11.R7', f'{fn}:carries-module', ok,
               f'{fn} does not carry module / modaliases into the forked '
               f'context', f.loc, sample=f"module={kws.get('module')}")


class _Sub:
    def __init__(self, ctx, rule):
        self._c = ctx
        self._rule = rule

    def __getattr__(self, k):
        return getattr(self._c, k)

    def ob(self, rule, *a, **kw):
        return self._c.ob(self._rule, *a, **kw)

    def fail(self, rule, *a, **kw):
        return self._c.fail(self._rule, *a, **kw)

    def floor(self, rule, n):
        self._c.floor(self._rule, min(n, 5))


class _B:
    def __init__(self, body):
        self.body = body



def _r13(repo, ctx):
    """C11.R13 the ancestors index of the SDL loader has one writer.
    `get_ancestors` memoises into it and treats an entry as final; anything
    else that puts an entry there (a placeholder for a base declared further
    down) is taken for a computed result, so whether a type's ancestors are
    complete depends on where its parent is written in the document."""
    ctx.floor('C11.R13', 2)
    m = repo.module(DECL)
    n = 0
    for f in repo._funcs_of(m):
        for x in ast.walk(f.node):
            tgt = None
            if isinstance(x, (ast.Assign, ast.AugAssign)):
                for t in (x.targets if isinstance(x, ast.Assign)
                          else [x.target]):
                    if isinstance(t, ast.Subscript) and norm(
                            t.value).split('.')[-1] == 'ancestors':
                        tgt = norm(t)
            elif isinstance(x, ast.Call) and isinstance(
                    x.func, ast.Attribute) and x.func.attr in (
                    'setdefault', 'update', 'pop', 'clear', '__setitem__') \
                    and norm(x.func.value).split('.')[-1] == 'ancestors':
                tgt = norm(x)[:50]
            if tgt is None:
                continue
            n += 1
            top = f
            while top.parent is not None:
                top = top.parent
            rhs_ok = True
            if isinstance(x, ast.Assign) and top.name != 'get_ancestors':
                rhs_ok = isinstance(x.value, ast.Call) and call_name(
                    x.value) == 'get_ancestors'
            ok = top.name == 'get_ancestors' or (
                isinstance(x, ast.Assign) and rhs_ok)
            ctx.ob('C11.R13', f'{top.name}:writes-ancestors', ok,
                   f'{top.name} writes `{tgt}` into the ancestors index '
                   f'itself: get_ancestors takes any entry for a finished '
                   f'result, so a type declared before its parent ends up '
                   f'with a truncated ancestor set in some declaration '
                   f'orders only', f'{f.module.rel()}:{x.lineno}',
                   sample=tgt)
    if n < 2:
        raise AnalysisError('C11.R13: writers of the ancestors index not '
                            'found')



def _r14(repo, ctx):
    """C11.R14 a type an expression names becomes a dependency.

    (a) tracer: wherever a handler checks that a type name exists
        (`check_type_exists(name, ...)`), that name is added to `ctx.refs`
        on every path that does not raise -- by the handler after the check
        or by the checker itself on each of its normal exits.  A type
        declared in the same document takes the checker's early exit; if the
        reference is only recorded after that exit, the dependency exists
        only for types that are already in the schema.
    (b) declarative: `trace_Function` records a TypeDependency for the type
        expression of *every* parameter and for the return type, whatever
        the shape of the parameter's type (a collection parameter depends on
        its element type)."""
    ctx.floor('C11.R14', 4)
    m = repo.module(TRACER)
    chk = m.functions.get('check_type_exists')
    if chk is None:
        raise AnalysisError('C11.R14: check_type_exists not found')
    p0 = chk.params()[0]
    gc = CFG(chk.node)
    adds_c = [n.id for n in gc.nodes if any(
        isinstance(c.func, ast.Attribute) and c.func.attr == 'add'
        and norm(c.func.value).endswith('refs') and c.args
        and norm(c.args[0]) == p0 for c in gc.node_calls(n))]
    callee_adds = bool(adds_c) and gc.always_before(gc.exit, adds_c)
    n = 0
    for f in repo._funcs_of(m):
        if f.parent is not None or f is chk:
            continue
        g = None
        for c in ast.walk(f.node):
            if isinstance(c, ast.Call) and call_name(c) == \
                    'check_type_exists' and c.args:
                g = g or CFG(f.node)
                nm = norm(c.args[0])
                site = [x.id for x in g.nodes if any(
                    y is c for y in g.node_calls(x))]
                adds = [x.id for x in g.nodes if any(
                    isinstance(y.func, ast.Attribute) and y.func.attr == 'add'
                    and norm(y.func.value).endswith('refs') and y.args
                    and norm(y.args[0]) == nm for y in g.node_calls(x))]
                ok = callee_adds
                if not ok and site and adds:
                    # every normal continuation of the check reaches an add
                    r = g.reachable(site, avoid=adds)
                    ok = g.exit not in r
                n += 1
                ctx.saw(f)
                ctx.ob('C11.R14', f'{f.name}:type-ref-recorded', ok,
                       f'{f.name} checks that `{nm}` exists but the name '
                       f'does not reach ctx.refs on every normal path '
                       f'(caller adds: {bool(adds)}, checker adds on all '
                       f'its exits: {callee_adds}): a type declared in the '
                       f'same document is not a dependency, so the '
                       f'declaration that names it can be emitted first',
                       f'{f.module.rel()}:{c.lineno}', sample=nm)
    if n < 3:
        raise AnalysisError(f'C11.R14: only {n} check_type_exists sites')
    # (b)
    tf = repo.module(DECL).functions.get('trace_Function')
    if tf is None:
        raise AnalysisError('C11.R14: trace_Function not found')
    ctx.saw(tf)
    node_p = tf.params()[0]

    def is_dep(c, what):
        return isinstance(c, ast.Call) and (call_name(c) or '').split(
            '.')[-1] == 'TypeDependency' and any(
            k.arg == 'texpr' and norm(k.value) == what for k in c.keywords)
    # the whole-sequence form, or a loop every path of whose body records it
    ok = False
    for x in ast.walk(tf.node):
        if isinstance(x, (ast.GeneratorExp, ast.ListComp)) and len(
                x.generators) == 1 and norm(
                x.generators[0].iter) == f'{node_p}.params' and not \
                x.generators[0].ifs and is_dep(
                    x.elt, f'{norm(x.generators[0].target)}.type'):
            ok = True
    if not ok:
        for lp in [x for x in ast.walk(tf.node) if isinstance(x, ast.For)
                   and norm(x.iter) == f'{node_p}.params']:
            v = norm(lp.target)
            mod = ast.Module(body=lp.body, type_ignores=[])
            fake = ast.FunctionDef(
                name='_', args=ast.arguments(
                    posonlyargs=[], args=[], kwonlyargs=[], kw_defaults=[],
                    defaults=[]), body=lp.body, decorator_list=[],
                lineno=lp.lineno, col_offset=0)
            gb = CFG(fake)
            deps = [x.id for x in gb.nodes if any(
                is_dep(c, f'{v}.type') for c in gb.node_calls(x))]
            if deps and gb.always_before(gb.exit, deps):
                ok = True
    ctx.ob('C11.R14', 'trace_Function:every-param-type', ok,
           'trace_Function does not record a TypeDependency for the type '
           'of every parameter: a parameter whose type takes the other '
           'branch (a collection of a user scalar) leaves the function '
           'independent of that scalar, and the function can be created '
           'first', tf.loc, sample='TypeDependency(texpr=param.type) for all')
    ok = any(is_dep(c, f'{node_p}.returning') for c in ast.walk(tf.node))
    ctx.ob('C11.R14', 'trace_Function:return-type', ok,
           'trace_Function records no TypeDependency for the return type',
           tf.loc, sample='TypeDependency(texpr=node.returning)')
