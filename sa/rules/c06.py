"""C06 — reported cardinality / multiplicity bound the result.

  R1 reported = inferred (provenance)
  R2 enum mapping identity ir.Cardinality -> protocol Cardinality
  R3 inference dispatch exhaustiveness (cardinality & multiplicity, siblings)
  R4 declared-cardinality enforcement sites
  R5 four bound facts forced by set semantics
  R6 bound facts under stated assumptions (three-valued path analysis)
  R7 which operators narrow a FILTER; UNION disjointness over lineages
"""
from __future__ import annotations

import ast
from typing import Dict, List, Optional, Set

from .. import visitors as V
from ..cfg import CFG
from ..model import (AnalysisError, FuncInfo, Repo, call_name, dotted, kwarg,
                     module_calls, norm, walk_no_nested)

COMP = 'edb.server.compiler.compiler'
ENUMS = 'edb.server.compiler.enums'
CARD = 'edb.edgeql.compiler.inference.cardinality'
MULT = 'edb.edgeql.compiler.inference.multiplicity'
IR = 'edb.ir.ast'

# leaf IR classes that deliberately do not go through the registry
INLINE = {
    'SetE': 'Set nodes are routed to _infer_set by the entry point '
            '(isinstance(ir, irast.Set)) before the registry is consulted',
    'TypeIntersectionPointer': 'Pointer-as-Expr: handled inline by the Set '
                               'handler via irutils.sub_expr / '
                               'isinstance(.., irast.Pointer)',
    'TupleIndirectionPointer': 'same: Pointer handled by the Set handler',
    'Pointer': 'same',
}
MULT_ONLY_INLINE = {
    'Statement': 'multiplicity is inferred on Statement.expr by '
                 'infer_toplevel / the cardinality handler; the entry point '
                 'is never called with a Statement',
}


def run(repo: Repo, ctx) -> None:
    ctx.explanation = (
        'Decides: R1 the cardinality stored in the compiled Query / unit '
        'derives only from ir.cardinality of the same IR through '
        'cardinality_from_ir_value (or the NO_RESULT constant under the '
        'no-output format), and pointer cardinalities in descriptors from '
        'the schema\'s (required, cardinality) pair; R2 that mapping is the '
        'identity on member names and covers every member; R3 every '
        'concrete IR expression/statement class resolves (singledispatch '
        'MRO) to a non-raising cardinality and multiplicity handler, with '
        'reasoned inline exceptions, and the two registries agree on their '
        'domain; R4 a declared single/required pointer or global is '
        'enforced by comparing inferred with specified bounds in the right '
        'direction before the pointer is updated; R5 four bound facts that '
        'set semantics forces (EXCEPT/INTERSECT lower bound zero, UNION '
        'sums, empty set may be empty, DISTINCT yields UNIQUE and the '
        'multi fall-through is DUPLICATE). Soundness of the rest of the '
        'bounds algebra is NOT decided.')
    ctx.not_decided = ['soundness of cartesian/coalesce/filter/LIMIT/FOR '
                       'bounds reasoning', 'DISTINCT elision']
    cm = repo.module(COMP)

    # ---- R1 provenance ---------------------------------------------------
    ctx.floor('C06.R1', 4)
    qfn = repo.func(f'{COMP}._compile_ql_query')
    ctx.saw(qfn)
    assigns = [n for n in walk_no_nested(qfn.node)
               if isinstance(n, ast.Assign)
               and norm(n.targets[0]) == 'result_cardinality']
    if not assigns:
        raise AnalysisError('C06.R1: result_cardinality not found')
    g = CFG(qfn.node)
    for a in assigns:
        v = norm(a.value)
        if v == 'enums.cardinality_from_ir_value(ir.cardinality)':
            ok, why = True, 'from ir.cardinality'
        elif v == 'enums.Cardinality.NO_RESULT':
            # only under the no-output format
            nid = g.nodes_of(a)
            tests = [t.id for t in g.nodes if t.kind == 'test' and norm(
                t.ast) == 'ctx.output_format is enums.OutputFormat.NONE']
            ok = bool(nid) and any(g.edge_dominates(t, 'T', nid[0])
                                   for t in tests)
            why = 'NO_RESULT under OutputFormat.NONE'
        else:
            ok, why = False, v
        ctx.ob('C06.R1', f'_compile_ql_query:result_cardinality={v[:40]}',
               ok, f'reported cardinality assigned from `{v}`: not derived '
               f'from the inferred ir.cardinality', f'{cm.rel()}:{a.lineno}',
               sample=why)
    # the ir is the one compiled from this statement
    irb = [n for n in walk_no_nested(qfn.node) if isinstance(n, ast.Assign)
           and norm(n.targets[0]) == 'ir']
    ok = bool(irb) and all('compile_ast_to_ir' in norm(b.value)
                           for b in irb)
    ctx.ob('C06.R1', '_compile_ql_query:ir-source', ok,
           '`ir` is not the result of compiling this statement', qfn.loc,
           sample='ir = qlcompiler.compile_ast_to_ir(ql, ...)')
    qc = [c for c in module_calls(cm).get('Query', [])
          if norm(c.func) == 'dbstate.Query'
          and kwarg(c, 'cardinality') is not None]
    for c in qc:
        fn = repo.enclosing_function(cm, c)
        v = norm(kwarg(c, 'cardinality'))
        ok = v == 'result_cardinality' if fn is qfn else (
            'NO_RESULT' in v or 'cardinality' in v)
        ctx.ob('C06.R1', f'{fn.name if fn else "?"}:Query.cardinality', ok,
               f'dbstate.Query(cardinality={v})', f'{cm.rel()}:{c.lineno}',
               sample=v)
    # unit.cardinality <- comp.cardinality
    ua = []
    for f in repo._funcs_of(cm):
        for n in walk_no_nested(f.node):
            if isinstance(n, ast.Assign) and norm(n.targets[0]) == \
                    'unit.cardinality':
                ua.append((f, n))
    if not ua:
        raise AnalysisError('C06.R1: unit.cardinality assignment not found')
    for f, n in ua:
        v = norm(n.value)
        ok = v in ('comp.cardinality', 'enums.Cardinality.NO_RESULT')
        ctx.ob('C06.R1', f'{f.name}:unit.cardinality={v}', ok,
               f'unit.cardinality = {v}', f'{cm.rel()}:{n.lineno}', sample=v)
    cfp = repo.func('edb.server.compiler.sertypes.cardinality_from_ptr')
    from ..model import inline_locals
    rets = [r for r in ast.walk(cfp.node) if isinstance(r, ast.Return)
            and r.value is not None]
    ps = cfp.params()
    if len(rets) != 1 or len(ps) < 2:
        raise AnalysisError('C06.R1: cardinality_from_ptr shape changed')
    flat = inline_locals(cfp.node, rets[0].value)
    want = (f'enums.cardinality_from_ir_value(qltypes.Cardinality.'
            f'from_schema_value({ps[0]}.get_required({ps[1]}), '
            f'{ps[0]}.get_cardinality({ps[1]})))')
    ok = flat == want
    ctx.ob('C06.R1', 'sertypes.cardinality_from_ptr', ok,
           'shape-element cardinality is not derived from the pointer\'s '
           '(required, cardinality) pair', cfp.loc,
           sample='from_schema_value(required, card) -> '
                  'cardinality_from_ir_value')

    # ---- R2 mapping identity ------------------------------------------------
    ctx.floor('C06.R2', 4)
    mp = repo.func(f'{ENUMS}.cardinality_from_ir_value')
    ctx.saw(mp)
    src = repo.cls('edb.edgeql.qltypes.Cardinality')
    members = [k for k in src.assign_fields if k.isupper()
               and k != 'UNKNOWN']
    pairs = {}
    node = next((st for st in mp.node.body if isinstance(st, ast.If)), None)
    tail = []
    while isinstance(node, ast.If):
        t = norm(node.test)
        if t.startswith('card is ir.Cardinality.') and len(node.body) == 1 \
                and isinstance(node.body[0], ast.Return):
            pairs[t.split('.')[-1]] = norm(node.body[0].value).split('.')[-1]
        if len(node.orelse) == 1 and isinstance(node.orelse[0], ast.If):
            node = node.orelse[0]
        else:
            tail = node.orelse
            node = None
    if not pairs:
        # table form: a dict display keyed by the ir members that the
        # function looks its argument up in
        from ..shapes import reach
        for nd in reach(repo, mp):
            for d in ast.walk(nd):
                if isinstance(d, ast.Dict) and d.keys and all(
                        k_ is not None and '.Cardinality.' in norm(k_)
                        for k_ in d.keys):
                    for k_, v_ in zip(d.keys, d.values):
                        pairs[norm(k_).split('.')[-1]] = \
                            norm(v_).split('.')[-1]
        if pairs:
            tail = [x for x in ast.walk(mp.node) if isinstance(x, ast.Raise)]
    if not pairs:
        raise AnalysisError('C06.R2: cardinality_from_ir_value maps its '
                            'argument neither by an is-chain nor through a '
                            'dict display: cannot read the mapping')
    for k in members:
        ctx.ob('C06.R2', f'cardinality_from_ir_value:{k}',
               pairs.get(k) == k,
               f'ir cardinality {k} is reported to clients as '
               f'{pairs.get(k)}', mp.loc, sample=f'{k} -> {pairs.get(k)}')
    ok = bool(tail) and isinstance(tail[0], ast.Raise)
    ctx.ob('C06.R2', 'cardinality_from_ir_value:else-raises', ok,
           'unknown cardinality is mapped silently', mp.loc, sample='raise')
    # the target enum is the protocol enum with those members
    em = repo.module(ENUMS)
    tgt = em.imports.get('Cardinality', '')
    pcls = repo.classes.get(repo.canon(tgt)) or repo.classes.get(
        f'{ENUMS}.Cardinality')
    ok = pcls is not None and all(k in pcls.assign_fields for k in members) \
        and 'NO_RESULT' in pcls.assign_fields
    vals = []
    if pcls is not None:
        vals = [norm(v) for v in pcls.assign_fields.values()]
    ok = ok and len(vals) == len(set(vals))
    ctx.ob('C06.R2', 'protocol.Cardinality:members', ok,
           'the client-facing Cardinality enum lacks a member / has '
           'duplicate byte values', pcls.loc if pcls else em.rel(),
           sample=sorted(pcls.assign_fields) if pcls else None)

    # ---- R3 exhaustiveness ---------------------------------------------------------
    ctx.floor('C06.R3', 60)
    roots = [f'{IR}.Expr', f'{IR}.Stmt', f'{IR}.SetE', f'{IR}.Statement',
             f'{IR}.ConfigCommand']
    leaves = [q for q in sorted(repo.classes) if q.startswith(IR + '.')
              and not repo.subclasses(q, strict=True)
              and any(x in repo.mro(q) for x in roots)]
    if len(leaves) < 30:
        raise AnalysisError(f'C06.R3: only {len(leaves)} IR leaf classes')
    regs = {}
    for mod, fname, label in ((CARD, '_infer_cardinality', 'cardinality'),
                              (MULT, '_infer_multiplicity', 'multiplicity')):
        reg = V.singledispatch_registry(repo, mod, fname)
        if len(reg) < 20:
            raise AnalysisError(f'C06.R3: {fname} registry not extracted')
        regs[label] = reg
        entry = repo.func(f'{mod}.infer_{label}')
        entry_sets = any(isinstance(n, ast.If) and norm(n.test) ==
                         'isinstance(ir, irast.Set)'
                         for n in ast.walk(entry.node))
        for q in leaves:
            nm = q.split('.')[-1]
            h = V.dispatch(repo, reg, q)
            raising = h is not None and _always_raises(h)
            if nm in INLINE or (label == 'multiplicity'
                                and nm in MULT_ONLY_INLINE):
                why = INLINE.get(nm) or MULT_ONLY_INLINE[nm]
                ok = entry_sets if nm == 'SetE' else True
                ctx.ob('C06.R3', f'{label}:class={nm}', ok,
                       f'{nm}: the inline handling this exception relies on '
                       f'({why}) is gone', entry.loc,
                       sample='inline: ' + why, nontrivial=False)
                continue
            ctx.ob('C06.R3', f'{label}:class={nm}',
                   h is not None and not raising,
                   f'IR class {nm} has no {label} inference handler '
                   f'(falls to the raising default'
                   f'{" / a handler that always raises" if raising else ""}'
                   f'): queries containing it cannot be given a {label}',
                   repo.classes[q].loc,
                   sample=h.name if h else None)
    # sibling agreement on explicitly registered classes
    only_c = set(regs['cardinality']) - set(regs['multiplicity'])
    only_m = set(regs['multiplicity']) - set(regs['cardinality'])
    for q in sorted(only_c):
        nm = q.split('.')[-1]
        if not any(x in repo.mro(q) for x in roots):
            continue   # not an expression class (e.g. TypeRef)
        covered = V.dispatch(repo, regs['multiplicity'], q) is not None \
            or nm in INLINE or nm in MULT_ONLY_INLINE
        ctx.ob('C06.R3', f'sibling:cardinality-only={nm}', covered,
               f'{nm} has a cardinality handler but multiplicity inference '
               f'cannot handle it', repo.classes[q].loc if q in repo.classes
               else '', sample='covered by ancestor / inline',
               nontrivial=False)

    # ---- R4 enforcement sites --------------------------------------------------------
    ctx.floor('C06.R4', 4)
    pc = repo.func(f'{CARD}._infer_pointer_cardinality')
    ctx.saw(pc)
    g = CFG(pc.node)
    updates = [n.id for n in g.nodes if any(
        norm(c.func) == 'ptrcls.set_field_value'
        for c in g.node_calls(n))]
    if not updates:
        raise AnalysisError('C06.R4: pointer cardinality update not found')

    # path facts (sa/absint.py): with a specified bound that the inferred
    # one exceeds, every path the assumptions leave open raises before the
    # pointer is updated -- whatever shape the comparison takes
    from ..absint import Facts, must_pass
    raises = [n.id for n in g.nodes if isinstance(n.ast, ast.Raise)
              and 'QueryError' in norm(n.ast)]

    def rejected(facts) -> bool:
        F = Facts(facts, pc.node)
        return bool(raises) and must_pass(
            g, F, raises, exits=[g.exit] + updates) and bool(F.used)
    ok = rejected({'spec_upper_bound is None': False,
                   'specified_card is None': False,
                   'inf_upper_bound > spec_upper_bound': True})
    ctx.ob('C06.R4', '_infer_pointer_cardinality:upper-bound', ok,
           'an expression that may return more than one element is accepted '
           'for a pointer declared single (comparison inf_upper > '
           'spec_upper -> QueryError missing or bypassable)', pc.loc,
           sample='inf_upper_bound > spec_upper_bound -> raise')
    ok = rejected({'spec_lower_bound is None': False,
                   'specified_required is None': False,
                   'inf_upper_bound > spec_upper_bound': False,
                   'inf_lower_bound < spec_lower_bound': True,
                   'is_mut_assignment': False})
    ctx.ob('C06.R4', '_infer_pointer_cardinality:lower-bound', ok,
           'an expression that may be empty is accepted for a computed '
           'pointer declared required', pc.loc,
           sample='inf_lower_bound < spec_lower_bound -> raise unless '
                  'mutation assignment')
    # the comparisons are not skipped when a spec is present: both facts
    # above quantify over every open path to an update
    ctx.ob('C06.R4', '_infer_pointer_cardinality:check-before-update',
           bool(updates), 'no pointer update found', pc.loc,
           sample='the two rejections range over every path to '
                  'set_field_value')
    cs = repo.func(f'{CARD}.__infer_config_set')
    tests = {norm(n.test): n for n in ast.walk(cs.node)
             if isinstance(n, ast.If)}
    ok = all(k in tests and any(isinstance(x, ast.Raise) for x in
                                tests[k].body)
             for k in ('ir.required and card.can_be_zero()',
                       'ir.cardinality.is_single() and (not card.is_single())'))
    ctx.ob('C06.R4', '__infer_config_set:global-bounds', ok,
           'a global declared required/single accepts an expression that '
           'may be empty / multi', cs.loc,
           sample='required&can_be_zero -> raise; single&multi -> raise')

    # ---- R5 forced bound facts -----------------------------------------------------
    ctx.floor('C06.R5', 6)
    oc = repo.func(f'{CARD}.__infer_oper_call')
    arms = _name_arms(oc)
    for op in ('std::EXCEPT', 'std::INTERSECT'):
        body = arms.get(op)
        rets = [norm(r.value) for st in (body or [])
                for r in ast.walk(st) if isinstance(r, ast.Return)]
        ok = bool(rets) and all(r.startswith('_bounds_to_card(CB_ZERO,')
                                for r in rets)
        ctx.ob('C06.R5', f'cardinality:{op}:lower-zero', ok,
               f'{op} is given a non-zero lower bound ({rets}): '
               f'{{1}} {op.split("::")[1].lower()} {{1}}-style results can '
               f'be empty whatever the operands', oc.loc, sample=rets)
    # A EXCEPT B is bounded above by A alone: the other operand being small
    # does not make the result small
    body = arms.get('std::EXCEPT') or []
    acc = {norm(c.func.value) for c in ast.walk(oc.node)
           if isinstance(c, ast.Call) and isinstance(c.func, ast.Attribute)
           and c.func.attr == 'append' and isinstance(
               c.func.value, ast.Name)}
    whole, first = [], []
    for st in body:
        subs = {id(x.value) for x in ast.walk(st) if isinstance(
            x, ast.Subscript) and norm(x.slice) == '0'}
        for x in ast.walk(st):
            if isinstance(x, ast.Name) and x.id in acc:
                (first if id(x) in subs else whole).append(x)
    ctx.ob('C06.R5', 'cardinality:std::EXCEPT:upper-of-first-operand',
           bool(first) and not whole,
           'the EXCEPT arm combines the bounds of all operands instead of '
           'taking the first operand\'s: {1, 2, 3} EXCEPT {1} has two '
           'elements but is bounded by the second operand (AT_MOST_ONE)',
           oc.loc, sample='cards[0]')
    body = arms.get('std::UNION')
    rets = [r for st in (body or []) for r in ast.walk(st)
            if isinstance(r, ast.Return)]
    ok = False
    if len(rets) == 1 and isinstance(rets[0].value, ast.Call):
        comb = repo.functions.get(f'{CARD}.{call_name(rets[0].value)}')
        if comb is not None:
            t = norm(comb.node)
            ok = 'sum(lower' in t and 'sum(upper' in t and 'max(' not in t
    ctx.ob('C06.R5', 'cardinality:std::UNION:sums', ok,
           'UNION does not add the operands\' bounds ({1} union {2} has two '
           'elements though both operands are ONE)', oc.loc,
           sample='_union_cardinality: sum(lower), sum(upper)')
    es = V.dispatch(repo, regs['cardinality'], f'{IR}.EmptySet')
    rets = [norm(r.value) for r in ast.walk(es.node)
            if isinstance(r, ast.Return)] if es else []
    ok = bool(rets) and all(r in ('AT_MOST_ONE', 'MANY') for r in rets)
    ctx.ob('C06.R5', 'cardinality:EmptySet:can-be-empty', ok,
           f'the empty set is inferred as {rets}: lower bound must be zero',
           es.loc if es else '', sample=rets)
    mo = repo.func(f'{MULT}.__infer_oper_call')
    marms = _name_arms(mo, var='op_name')
    body = marms.get('std::DISTINCT')
    rets = [norm(r.value) for st in (body or []) for r in ast.walk(st)
            if isinstance(r, ast.Return)]
    ok = bool(rets) and set(rets) <= {'UNIQUE', 'EMPTY'} and 'UNIQUE' in rets
    ctx.ob('C06.R5', 'multiplicity:std::DISTINCT', ok,
           f'DISTINCT returns {rets}: it must be UNIQUE (or EMPTY)', mo.loc,
           sample=rets)
    tail = marms.get('<else>')
    rets = [norm(r.value) for st in (tail or []) for r in ast.walk(st)
            if isinstance(r, ast.Return)]
    ok = rets == ['DUPLICATE']
    ctx.ob('C06.R5', 'multiplicity:fall-through', ok,
           f'the fall-through for a multi-cardinality operator returns '
           f'{rets}: {{1, 2}} - {{1, 2}} contains 0 twice, so it must be '
           f'DUPLICATE', mo.loc, sample=rets)
    # the UNIQUE-for-single shortcut is guarded by card.is_single()
    single = [n for n in ast.walk(mo.node) if isinstance(n, ast.If)
              and norm(n.test) == 'card.is_single()']
    ok = len(single) == 1 and [norm(s) for s in single[0].body] == \
        ['return UNIQUE']
    ctx.ob('C06.R5', 'multiplicity:single-is-unique', ok,
           'operator results are declared UNIQUE without the '
           'single-cardinality test', mo.loc,
           sample='elif card.is_single(): return UNIQUE')


    _r6(repo, ctx)
    _r7(repo, ctx)
    _r8(repo, ctx)
    _r9(repo, ctx)


ZERO_LOWER = ('AT_MOST_ONE', 'MANY')


def _zeroes_lower(v: ast.expr) -> bool:
    """The expression has lower bound zero whatever its operands are."""
    t = norm(v)
    if t in ZERO_LOWER:
        return True
    if isinstance(v, ast.Call):
        f = call_name(v)
        if f == '_bounds_to_card' and v.args and norm(v.args[0]) == 'CB_ZERO':
            return True
        if f == 'cartesian_cardinality' and v.args and isinstance(
                v.args[0], (ast.List, ast.Tuple)) and any(
                    norm(e) in ZERO_LOWER for e in v.args[0].elts):
            return True
    return False


# (id, function, assumed facts, requirement, why the semantics force it)
#   requirement: ('zero', var)       every open path rebinds var to a value
#                                    with lower bound zero
#                ('ret', {texts})    every open return yields one of texts
#                ('retzero',)        every open return has lower bound zero
#                ('pass', callname)  every open path calls callname
#                ('guard', callname, test-text, label)  the call is only
#                                    reachable through that branch
BOUND_FACTS = [
    ('select:limit-not-constant', '__infer_select_stmt',
     {'ir.limit is not None': True, 'ir.limit': True,
      'isinstance(ir.limit.expr, irast.IntegerConstant)': False},
     ('zero', 'stmt_card'),
     'LIMIT <expr> may evaluate to 0: SELECT {1,2} LIMIT <int64>$n is empty '
     'for n = 0'),
    ('select:limit-zero', '__infer_select_stmt',
     {'ir.limit is not None': True, 'ir.limit': True,
      'isinstance(ir.limit.expr, irast.IntegerConstant)': True,
      "ir.limit.expr.value == '0'": True,
      "ir.limit.expr.value == '1'": False},
     ('zero', 'stmt_card'), 'LIMIT 0 is empty'),
    ('select:offset', '__infer_select_stmt',
     {'ir.offset is not None': True, 'ir.offset': True},
     ('zero', 'stmt_card'), 'OFFSET n may skip every element'),
    ('select:iterator', '__infer_select_stmt',
     {'ir.iterator_stmt': True, 'ir.iterator_stmt is not None': True,
      'ir.card_inference_override': False},
     ('pass', 'cartesian_cardinality'),
     'FOR x IN S UNION e has one batch of results per element of S'),
    ('stmt:filter', '_infer_stmt_cardinality',
     {'ir.where': True, 'ir.where is not None': True},
     ('zero', 'result_card'), 'a FILTER may reject every element'),
    ('stmt:filter-narrowing-needs-unique', '_infer_stmt_cardinality', {},
     ('guard', '_analyse_filter_clause', 'result_mult.is_unique()', 'T'),
     'an equality filter on an exclusive pointer selects at most one '
     '*distinct* object; with duplicates in the input it can select several'),
    ('insert:unless-conflict', '__infer_insert_stmt',
     {'ir.on_conflict': True, 'ir.on_conflict is not None': True},
     ('retcall', '_infer_on_conflict_cardinality'),
     'INSERT ... UNLESS CONFLICT returns nothing when the conflict occurs'),
    ('on-conflict:base', '_infer_on_conflict_cardinality',
     {'on_conflict.else_ir': False, 'on_conflict.else_ir is not None': False},
     ('leaf', 'card', {'AT_MOST_ONE', 'MANY'}),
     'UNLESS CONFLICT without ELSE yields the empty set on conflict'),
    ('typecast:json-null', '__infer_typecast',
     {'typeutils.is_json(ir.from_type)': True,
      'ir.cardinality_mod == qlast.CardinalityModifier.Required': False},
     ('zero', 'card'), "<str>to_json('null') is the empty set"),
    ('param:optional', '__infer_param', {'ir.required': False},
     ('ret', {'AT_MOST_ONE', 'MANY'}), 'an optional parameter may be empty'),
    ('inlined-param:optional', '__infer_inlined_param',
     {'ir.required': False},
     ('ret', {'AT_MOST_ONE', 'MANY'}), 'an optional parameter may be empty'),
    ('const-set:several', '__infer_const_set',
     {'len(ir.elements) == 1': False},
     ('ret', {'AT_LEAST_ONE', 'MANY'}),
     'a constant set of several elements has several elements'),
    ('typemod:set-of', '_typemod_to_card',
     {'typemod is qltypes.TypeModifier.SetOfType': True},
     ('ret', {'MANY'}), 'a SET OF function may return any number of rows'),
    ('typemod:optional', '_typemod_to_card',
     {'typemod is qltypes.TypeModifier.SetOfType': False,
      'typemod is qltypes.TypeModifier.OptionalType': True},
     ('ret', {'AT_MOST_ONE', 'MANY'}), 'an OPTIONAL function may return {}'),
    ('group', '__infer_group_stmt', {}, ('ret', {'MANY'}),
     'GROUP yields one element per group, zero for empty input'),
    ('trigger-anchor', '__infer_trigger_anchor', {}, ('ret', {'MANY'}),
     '__new__/__old__ range over all affected objects'),
    ('filter-clause:needs-exclusive', '_analyse_filter_clause',
     {'extract_exclusive_filters(result_set, filter_clause, scope_tree, ctx)':
      False},
     ('ret', {'result_card'}),
     'without an exclusive-constraint match the filter keeps the upper '
     'bound of its input'),
    ('func:preserves-optionality', '__infer_func_call',
     {'ir.preserves_optionality': True},
     ('leaf', 'lower', {'min(arg_lower)'}),
     'a function preserving optionality is empty when its argument is'),
    ('func:declared-lower', '__infer_func_call',
     {'ir.preserves_optionality': False,
      "ir.func_shortname == sn.QualName('std', 'assert_exists')": False},
     ('leaf', 'lower', {'ret_lower_bound', 'CB_ZERO'}),
     'only assert_exists turns a possibly-empty argument into a non-empty '
     'result'),
    ('func:force-multi', '__infer_func_call',
     {'force_multi': True},
     ('leaf', 'upper', {'CB_MANY'}),
     'a multi OPTIONAL argument multiplies the calls'),
    ('func:declared-upper', '__infer_func_call',
     {'force_multi': False, 'ir.preserves_upper_cardinality': False},
     ('leaf', 'upper', {'ret_upper_bound', 'CB_MANY'}),
     'without upper-cardinality preservation the declared return '
     'modifier bounds the result'),
    ('filters:multi-operands', 'extract_filters',
     {'isinstance(expr, irast.OperatorCall)': True,
      'str(expr.func_shortname)': 'std::=', 'op_card.is_multi()': True},
     ('ret', {'[]'}),
     'an equality whose operands are multi holds for several objects'),
    ('filters:single-rhs', 'extract_filters', {},
     ('guardret', '[(pointers, right)]',
      'infer_cardinality(right, scope_tree=scope_tree, ctx=ctx).is_single()',
      'T'),
     '.p = {a, b} selects up to two objects even when p is exclusive'),
    ('exclusive:ptr-needs-constraint', 'extract_exclusive_filters',
     {'_all_have_exclusive([ptr], ctx)': False},
     ('unreach', 'results.append(((ptr, expr),))'),
     'only a pointer with an exclusive constraint identifies one object'),
    ('exclusive:except-constraints-ignored',
     'get_object_exclusive_constraints',
     {'constr.get_except_expr(schema)': True},
     ('unreach', 'cnstrs[constr] = pointer_refs'),
     'an exclusive constraint with EXCEPT does not cover every object'),
    ('exclusive:delegated-constraints-ignored',
     'get_object_exclusive_constraints',
     {'constr.get_delegated(schema)': True},
     ('unreach', 'cnstrs[constr] = pointer_refs'),
     'a delegated constraint is enforced per subtype only'),
    ('exclusive:all-pointers-filtered',
     'get_object_exclusive_constraints',
     {'pointer_refs.issubset(ptr_set)': False},
     ('unreach', 'cnstrs[constr] = pointer_refs'),
     'a compound exclusive constraint identifies one object only when '
     'every pointer in it is filtered on'),
    # ---- multiplicity ---------------------------------------------------
    ('M:func:set-returning', 'M:__infer_func_call',
     {'card.is_single()': False, 'str(ir.func_shortname)': 'std::other'},
     ('ret', {'DUPLICATE'}),
     'a set-returning function may repeat values'),
    ('M:oper:if-multi-condition', 'M:__infer_oper_call',
     {'op_name': 'std::IF', 'cards[1].is_single()': False},
     ('ret', {'DUPLICATE'}),
     'a multi condition evaluates the branches several times'),
    ('M:oper:other', 'M:__infer_oper_call',
     {'op_name': 'std::other', 'card.is_single()': False},
     ('ret', {'DUPLICATE'}), '{1,2} - {1,2} contains 0 twice'),
    ('M:oper:plus-two-multi', 'M:__infer_oper_call',
     {'op_name': 'std::+', 'card.is_single()': False,
      'result.is_duplicate()': False,
      'len([card for card in cards if card.is_multi()]) > 1': True},
     ('ret', {'DUPLICATE'}), '{1,2} + {1,2} contains 3 twice'),
    ('M:set:plain-property', 'M:_infer_set_inner',
     {'isinstance(ir.expr, irast.Pointer)': True,
      'isinstance(ptr.ptrref, irast.TupleIndirectionPointerRef)': False,
      'irtyputils.is_object(ir.typeref)': False,
      'expr_mult is not None': False,
      'pointer.is_exclusive(schema)': False,
      'path_mult.is_duplicate()': True,
      'irutils.is_trivial_free_object(ir)': False,
      'path_mult.fresh_free_object': False},
     ('leaf', 'path_mult', {'DUPLICATE'}),
     'two objects may hold the same value in a non-exclusive property'),
    ('M:set:opaque-tuple', 'M:_infer_set_inner',
     {'isinstance(ir.expr, irast.Pointer)': True,
      'isinstance(ptr.ptrref, irast.TupleIndirectionPointerRef)': True,
      'isinstance(src_mult, ContainerMultiplicityInfo)': False,
      'path_mult.is_duplicate()': True,
      'irutils.is_trivial_free_object(ir)': False,
      'path_mult.fresh_free_object': False},
     ('leaf', 'path_mult', {'DUPLICATE'}),
     'elements of an opaque tuple set may repeat'),
    ('M:const-set:repeated', 'M:__infer_const_set',
     {'len(ir.elements) == len(els)': False},
     ('ret', {'DUPLICATE'}), '{1, 1} contains 1 twice'),
    ('M:const-set:non-constant', 'M:__infer_const_set',
     {'isinstance(el, irast.BaseConstant)': False,
      'len(ir.elements) == len(els)': False},
     ('ret', {'DUPLICATE'}), 'unknown elements may coincide'),
    ('M:typecheck:multi', 'M:__infer_typecheckop',
     {'card.is_single()': False}, ('ret', {'DUPLICATE'}),
     '{A, B} IS A yields true and false several times'),
    ('M:for:duplicate-iterator', 'M:_infer_for_multiplicity',
     {'isinstance(ir.result.expr, irast.InsertStmt)': False,
      'itmult.is_duplicate()': True},
     ('ret', {'DUPLICATE'}),
     'FOR over a bag evaluates the body once per duplicate'),
    ('M:for:not-disjoint', 'M:_infer_for_multiplicity',
     {'isinstance(ir.result.expr, irast.InsertStmt)': False,
      'itmult.is_duplicate()': False,
      'result_mult.disjoint_union': False,
      'result_mult.fresh_free_object': False},
     ('ret', {'DUPLICATE'}),
     'FOR x IN {1,2} UNION User repeats every User'),
    ('M:group', 'M:__infer_group_stmt',
     {'result_mult.fresh_free_object': False}, ('ret', {'DUPLICATE'}),
     'GROUP results are not known to be distinct'),
]


def _r6(repo: Repo, ctx) -> None:
    from ..absint import Facts, closed_edges, must_pass, open_nodes, \
        open_returns
    ctx.floor('C06.R6', 35)
    for fid, fname, facts, req, why in BOUND_FACTS:
        mod = CARD
        if fname.startswith('M:'):
            mod, fname = MULT, fname[2:]
        fn = repo.func(f'{mod}.{fname}')
        ctx.saw(fn)
        g = CFG(fn.node)
        F = Facts(facts, fn.node)
        kind = req[0]
        ok = False
        got = ''
        if kind == 'zero':
            var = req[1]
            tg = [n.id for n in g.nodes if n.kind == 'stmt' and isinstance(
                n.ast, ast.Assign) and any(norm(t) == var
                                           for t in n.ast.targets)
                and _zeroes_lower(n.ast.value)]
            ok = bool(tg) and must_pass(g, F, tg)
            got = f'{len(tg)} zeroing assignment(s) of {var}'
        elif kind == 'pass':
            tg = [n.id for n in g.nodes if any(
                call_name(c) == req[1] for c in g.node_calls(n))]
            ok = bool(tg) and must_pass(g, F, tg)
            got = f'{len(tg)} call(s) of {req[1]}'
        elif kind == 'guard':
            tg = [n.id for n in g.nodes if any(
                call_name(c) == req[1] for c in g.node_calls(n))]
            if not tg:
                raise AnalysisError(f'C06.R6 {fid}: call {req[1]} not '
                                    f'found in {fname}')
            F = Facts({req[2]: req[3] != 'T'}, fn.node)
            on = open_nodes(g, F)
            ok = bool(F.used) and not (set(tg) & on)
            got = f'{len(tg)} call(s), guard present={bool(F.used)}'
            F.used.add('-')
        elif kind == 'unreach':
            on = open_nodes(g, F)
            tg = [n.id for n in g.nodes if n.kind == 'stmt'
                  and norm(n.ast) == req[1]]
            if not tg:
                raise AnalysisError(f'C06.R6 {fid}: statement {req[1]!r} '
                                    f'not found in {fname}')
            ok = bool(F.used) and not (set(tg) & on)
            got = (f'{len(tg)} site(s), open={bool(set(tg) & on)}, '
                   f'condition present={bool(F.used)}')
            F.used.add('-')
        elif kind == 'guardret':
            tg = [n.id for n in g.nodes if n.kind == 'stmt' and isinstance(
                n.ast, ast.Return) and n.ast.value is not None
                and norm(n.ast.value) == req[1]]
            if not tg:
                raise AnalysisError(f'C06.R6 {fid}: return {req[1]} not '
                                    f'found in {fname}')
            F = Facts({req[2]: req[3] != 'T'}, fn.node)
            on = open_nodes(g, F)
            ok = bool(F.used) and not (set(tg) & on)
            got = f'{len(tg)} return(s), guard present={bool(F.used)}'
            F.used.add('-')
        elif kind in ('ret', 'retcall'):
            rets = open_returns(g, F)
            lv = [norm(x) if kind == 'ret' else (
                call_name(x) if isinstance(x, ast.Call) else norm(x))
                for r in rets if r.value is not None
                for x in F.leaves(r.value)]
            want = req[1] if kind == 'ret' else {req[1]}
            ok = bool(lv) and set(lv) <= want
            got = sorted(set(lv))
        elif kind == 'leaf':
            var, want = req[1], req[2]
            on = open_nodes(g, F)
            asg = [g.nodes[i].ast for i in sorted(on)
                   if g.nodes[i].kind == 'stmt' and isinstance(
                       g.nodes[i].ast, ast.Assign) and any(
                       norm(t) == var for t in g.nodes[i].ast.targets)]
            lv = [norm(x) for a in asg for x in F.leaves(a.value)]
            ok = bool(lv) and set(lv) <= want
            got = sorted(set(lv))
        closed_edges(g, F)
        for r_ in open_returns(g, F):
            if r_.value is not None:
                F.leaves(r_.value)
        if facts and not F.used and not ok and _mentions(fn, facts):
            raise AnalysisError(
                f'C06.R6 {fid}: none of the assumed conditions '
                f'{sorted(facts)} occurs in {fname} any more; the fact '
                f'cannot be decided')
        ctx.ob('C06.R6', f'{fname}:{fid}', ok,
               f'under {facts or "no assumption"} the inferred bound of '
               f'{fname} is not forced as required ({got}); {why}',
               fn.loc, sample=f'{req} <- {got}')


# operators whose truth implies that both operands are non-empty and equal
KEY_EQUALITY = {'std::=', 'std::IN'}
CONJUNCTION = {'std::AND'}


def _r7(repo: Repo, ctx) -> None:
    """Which operators let a FILTER narrow the result to at most one."""
    ctx.floor('C06.R7', 3)
    ef = repo.func(f'{CARD}.extract_filters')
    ctx.saw(ef)
    eq_names: Set[str] = set()
    rec_names: Set[str] = set()
    seen = 0
    for n in ast.walk(ef.node):
        if not isinstance(n, ast.If):
            continue
        t = n.test
        if not (isinstance(t, ast.Compare) and 'func_shortname' in norm(
                t.left)):
            continue
        c = t.comparators[0]
        names = [c.value] if isinstance(c, ast.Constant) else [
            e.value for e in getattr(c, 'elts', [])
            if isinstance(e, ast.Constant)]
        seen += 1
        body = ast.Module(body=n.body, type_ignores=[])
        recurses = any(isinstance(x, ast.Call) and call_name(x) ==
                       'extract_filters' for x in ast.walk(body))
        yields = any(isinstance(x, ast.Return) and x.value is not None
                     and not recurses and norm(x.value) != '[]'
                     for x in ast.walk(body))
        if recurses:
            rec_names |= set(names)
        elif yields:
            eq_names |= set(names)
    if seen < 2 or not eq_names:
        raise AnalysisError('C06.R7: operator-name tests of extract_filters '
                            'not found')
    bad = eq_names - KEY_EQUALITY
    ctx.ob('C06.R7', 'extract_filters:key-equality-operators', not bad,
           f'extract_filters treats {sorted(bad)} like "=": such a test can '
           f'hold for several objects (e.g. ?= holds for every object whose '
           f'pointer is empty when the other side is empty), so FILTER on an '
           f'exclusive pointer no longer implies AT_MOST_ONE', ef.loc,
           sample=sorted(eq_names))
    bad = rec_names - CONJUNCTION
    ctx.ob('C06.R7', 'extract_filters:conjunction-operators', not bad,
           f'extract_filters descends into the operands of {sorted(bad)}: '
           f'only a conjunction passes an equality on to the whole filter',
           ef.loc, sample=sorted(rec_names))
    # the same extraction feeds multiplicity (disjoint UNION detection)
    users = sorted({f.qualname for m in (CARD, MULT)
                    for f in repo._funcs_of(repo.module(m))
                    for c in ast.walk(f.node) if isinstance(c, ast.Call)
                    and (call_name(c) or '').endswith('extract_filters')})
    ctx.ob('C06.R7', 'extract_filters:users', len(users) >= 3, '', ef.loc,
           sample=users, nontrivial=False)
    # ---- UNION of object sets: disjointness over the whole lineage -------
    mo = repo.func(f'{MULT}.__infer_oper_call')
    arms = _name_arms(mo, var='op_name')
    body = arms.get('std::UNION')
    if not body:
        raise AnalysisError('C06.R7: UNION arm of multiplicity inference '
                            'not found')
    mod = ast.Module(body=body, type_ignores=[])
    calls = {c.func.attr for c in ast.walk(mod) if isinstance(c, ast.Call)
             and isinstance(c.func, ast.Attribute)}
    shallow = calls & {'children', 'get_bases', 'issubclass', 'get_ancestors',
                       'ancestors'}
    deep = 'descendants' in calls
    assigns = [a for a in ast.walk(mod) if isinstance(a, ast.Assign)
               and norm(a.targets[0]) == 'types_disjoint']
    if not assigns:
        raise AnalysisError('C06.R7: types_disjoint not found')
    if not deep and not shallow:
        raise AnalysisError('C06.R7: cannot tell how UNION operand lineages '
                            'are computed')
    ctx.ob('C06.R7', 'multiplicity:UNION:lineage-is-transitive',
           deep and not (calls & {'children'}),
           f'UNION operands are declared disjoint from {sorted(shallow)} '
           f'instead of the full descendant sets: A UNION C with C a '
           f'grandchild of A contains every C twice but is inferred UNIQUE',
           mo.loc, sample=sorted(calls & ({'descendants'} | shallow)))
    # ---- element-wise application repeats results ------------------------
    from ..absint import Facts, open_returns
    mf = repo.func(f'{MULT}.__infer_func_call')
    g = CFG(mf.node)
    ew = [t for t in g.nodes if t.kind == 'test' and 'param_typemod' in
          norm(t.ast) and 'is_multi()' in norm(t.ast)]
    if not ew:
        ctx.fail('C06.R7', 'multiplicity:func:elementwise-multi-argument',
                 'multiplicity.__infer_func_call has no test for a multi '
                 'non-SET OF argument: a call is applied once per element '
                 'of such an argument, so assert_exists(1, message := '
                 '{"a","b"}) yields {1, 1} but is classified by its input '
                 'alone', mf.loc)
    else:
        # the guard covers every parameter kind that is applied
        # element-wise: all modifiers except SET OF
        tm = repo.classes.get('edb.edgeql.qltypes.TypeModifier')
        members = [t.id for st in (tm.node.body if tm else [])
                   if isinstance(st, ast.Assign) for t in st.targets
                   if isinstance(t, ast.Name)]
        if 'SetOfType' not in members or len(members) < 3:
            raise AnalysisError('C06.R7: TypeModifier members not found')
        cmp_ = [c for c in ast.walk(ew[0].ast) if isinstance(c, ast.Compare)
                and norm(c.left).endswith('param_typemod')
                and len(c.ops) == 1]
        if not cmp_:
            raise AnalysisError('C06.R7: param_typemod comparison of the '
                                'element-wise guard not found')
        c = cmp_[0]
        rhs = c.comparators[0]
        named = {norm(e).split('.')[-1] for e in (
            rhs.elts if isinstance(rhs, (ast.Tuple, ast.List, ast.Set))
            else [rhs])}
        neg = isinstance(c.ops[0], (ast.IsNot, ast.NotEq, ast.NotIn))
        covered = {mb for mb in members if (mb in named) != neg}
        want = set(members) - {'SetOfType'}
        ctx.ob('C06.R7', 'multiplicity:func:elementwise-guard-covers',
               covered == want,
               f'the element-wise guard of multiplicity.__infer_func_call '
               f'holds for parameters that are {sorted(covered)} but the '
               f'call is applied per element for {sorted(want)}: a multi '
               f'set bound to an OPTIONAL parameter repeats results and is '
               f'still classified by its input alone', mf.loc,
               sample=norm(c))
        F = Facts({norm(ew[0].ast): True, 'card.is_single()': False},
                  mf.node)
        lv = [norm(x) for r in open_returns(g, F) if r.value is not None
              for x in F.leaves(r.value)]
        ctx.ob('C06.R7', 'multiplicity:func:elementwise-multi-argument',
               bool(lv) and set(lv) <= {'DUPLICATE'},
               f'with a multi non-SET OF argument a non-single call can '
               f'still be classified {sorted(set(lv))}', mf.loc,
               sample=sorted(set(lv)))
    nonobj = [a for a in assigns if norm(a.value) == 'False']
    ctx.ob('C06.R7', 'multiplicity:UNION:scalars-not-disjoint', bool(nonobj),
           'UNION of non-object sets is assumed disjoint', mo.loc,
           sample='else: types_disjoint = False')


def _mentions(fn: FuncInfo, facts) -> bool:
    """Does the function still consult any quantity the assumed conditions
    talk about (attribute chains such as ir.limit)?  If not, the assumption
    cannot matter and the requirement is decided on all paths."""
    import re
    text = norm(fn.node)
    for k in facts:
        for ch in re.findall(r'[A-Za-z_][A-Za-z_0-9]*(?:\.[A-Za-z_][A-Za-z_0-9]*)+', k):
            if ch.split('.')[0] in ('irast', 'qltypes', 'qlast', 'typeutils',
                                    'irtyputils', 'irutils', 'sn'):
                continue
            if ch in text:
                return True
    return False


def _st(t: str) -> str:
    from ..absint import _strip
    return _strip(t)


def _always_raises(fn: FuncInfo) -> bool:
    body = [s for s in fn.node.body if not (isinstance(s, ast.Expr)
                                            and isinstance(s.value,
                                                           ast.Constant))]
    return bool(body) and isinstance(body[0], ast.Raise)


def _name_arms(fn: FuncInfo, var: Optional[str] = None) -> Dict[str, list]:
    """arms of an if/elif chain testing an operator name against string
    constants: {name: body}; '<else>' for the final else."""
    out: Dict[str, list] = {}
    for st in fn.node.body:
        if not isinstance(st, ast.If):
            continue
        node = st
        found = False
        while isinstance(node, ast.If):
            t = node.test
            names = []
            if isinstance(t, ast.Compare) and len(t.ops) == 1:
                c = t.comparators[0]
                if isinstance(t.ops[0], ast.Eq) and isinstance(
                        c, ast.Constant) and isinstance(c.value, str):
                    names = [c.value]
                elif isinstance(t.ops[0], ast.In) and isinstance(
                        c, (ast.Tuple, ast.List, ast.Set)):
                    names = [e.value for e in c.elts
                             if isinstance(e, ast.Constant)]
            for nme in names:
                if nme.startswith('std::'):
                    out[nme] = node.body
                    found = True
            if len(node.orelse) == 1 and isinstance(node.orelse[0], ast.If):
                node = node.orelse[0]
            else:
                if found:
                    out['<else>'] = node.orelse
                node = None
        if found:
            break
    return out


def _r8(repo: Repo, ctx) -> None:
    """C06.R8 three more facts that set semantics forces.

    (a) IF..ELSE yields the selected branch only, so it can be empty as soon
        as *either* branch can: the arm for std::IF must not combine the
        branches with max_cardinality (which takes the larger lower bound;
        `1 IF <bool>$c ELSE <int64>{}` would be reported ONE and be empty).
    (b) a set literal is known duplicate-free only when every element is a
        compile-time constant whose value is compared: an element whose
        value is not known (a parameter) makes it DUPLICATE
        (`{<int64>$a, <int64>$b}` with a = b).
    (c) Pointer.is_exclusive answers from get_exclusive_constraints (or
        applies every exclusion that function applies): a delegated
        constraint is enforced per subtype only, so an abstract pointer
        carrying one is not exclusive across subtypes."""
    ctx.floor('C06.R8', 3)
    oc = None
    for f in repo.modules[CARD].functions.values():
        if f.name.endswith('infer_oper_call'):
            oc = f
    if oc is None:
        raise AnalysisError('C06.R8: __infer_oper_call not found')
    ctx.saw(oc)
    arm = None
    for n in ast.walk(oc.node):
        if isinstance(n, ast.If) and "'std::IF'" in norm(n.test):
            arm = n
    if arm is None:
        raise AnalysisError('C06.R8: std::IF arm not found')
    # the arm that is taken when the name is std::IF
    calls = [(call_name(c) or '').rsplit('.', 1)[-1]
             for st in arm.body for c in ast.walk(st)
             if isinstance(c, ast.Call)]
    ctx.ob('C06.R8', 'cardinality:std::IF:lower-bound',
           'max_cardinality' not in calls,
           f'the std::IF arm combines operands with max_cardinality: the '
           f'lower bound becomes the larger of the two branches\' lower '
           f'bounds although the possibly-empty branch may be the one '
           f'selected (reported ONE, evaluates to the empty set)',
           f'{oc.module.rel()}:{arm.lineno}', sample=sorted(set(calls)))
    # (b)
    cs = None
    for f in repo.modules[MULT].functions.values():
        if f.name.endswith('infer_const_set'):
            cs = f
    if cs is None:
        raise AnalysisError('C06.R8: __infer_const_set not found')
    ctx.saw(cs)
    bad = []
    n_add = 0

    def scan(stmts, classes):
        nonlocal n_add
        for st in stmts:
            if isinstance(st, ast.If):
                ks = []
                for c in ast.walk(st.test):
                    if isinstance(c, ast.Call) and call_name(c) == \
                            'isinstance' and len(c.args) == 2:
                        t = c.args[1]
                        for x in (t.elts if isinstance(t, ast.Tuple)
                                  else [t]):
                            ks.append(repo.resolve_expr(cs.module, x))
                scan(st.body, ks or classes)
                scan(st.orelse, classes)
            elif isinstance(st, (ast.For, ast.While)):
                scan(st.body, classes)
            else:
                for c in ast.walk(st):
                    if isinstance(c, ast.Call) and isinstance(
                            c.func, ast.Attribute) and c.func.attr == 'add':
                        n_add += 1
                        if not classes or not all(
                                k and repo.issubclass(k, f'{IR}.BaseConstant')
                                for k in classes):
                            bad.append(sorted(str(k).rsplit('.', 1)[-1]
                                              for k in classes))
    scan(cs.node.body, [])
    if not n_add:
        raise AnalysisError('C06.R8: element set of __infer_const_set '
                            'not found')
    ctx.ob('C06.R8', 'multiplicity:const-set:only-known-values', not bad,
           f'__infer_const_set counts elements of class {bad} as distinct '
           f'values: their run-time values are unknown, two of them can be '
           f'equal and the literal then contains a duplicate although it is '
           f'reported UNIQUE', cs.loc, sample='isinstance(el, BaseConstant)')
    # (c)
    pc = repo.cls('edb.schema.pointers.Pointer')
    ie = pc.methods.get('is_exclusive')
    ge = pc.methods.get('get_exclusive_constraints')
    if ie is None or ge is None:
        raise AnalysisError('C06.R8: Pointer.is_exclusive / '
                            'get_exclusive_constraints not found')
    ctx.saw(ie)
    def last(c):
        return (call_name(c) or '').rsplit('.', 1)[-1]
    delegates = any(isinstance(c, ast.Call) and last(c) ==
                    'get_exclusive_constraints' for c in ast.walk(ie.node))
    # the exclusions applied per constraint (the loop's test)
    filt = {last(c) for lp in ast.walk(ge.node) if isinstance(lp, ast.For)
            for t in ast.walk(lp) if isinstance(t, ast.If)
            for c in ast.walk(t.test) if isinstance(c, ast.Call)}
    mine = {last(c) for c in ast.walk(ie.node) if isinstance(c, ast.Call)}
    ctx.ob('C06.R8', 'Pointer.is_exclusive:same-exclusions',
           delegates or filt <= mine,
           f'is_exclusive neither asks get_exclusive_constraints nor '
           f'applies all of its exclusions (missing '
           f'{sorted(filt - mine)}): a pointer whose only exclusive '
           f'constraint is delegated (enforced per subtype) is treated as '
           f'exclusive across subtypes, and a backlink / path through the '
           f'abstract type is reported AT_MOST_ONE / UNIQUE wrongly',
           ie.loc, sample=sorted(filt))



def _r9(repo: Repo, ctx) -> None:
    """C06.R9 a filter on a multi-hop path narrows the result to one object
    only when every hop identifies one object.  `extract_exclusive_filters`
    checks the first hop against the pointer's own / the object's exclusive
    constraints and all the *following* hops through `_all_have_exclusive`:
    the hops handed to it have to run to the end of the path (a slice with
    no upper bound that starts at the first or second hop)."""
    ctx.floor('C06.R9', 1)
    f = repo.func(f'{CARD}.extract_exclusive_filters')
    ctx.saw(f)
    n = 0
    for c in ast.walk(f.node):
        if isinstance(c, ast.Call) and call_name(c) == '_all_have_exclusive' \
                and c.args and isinstance(c.args[0], ast.Subscript) and \
                isinstance(c.args[0].slice, ast.Slice):
            sl = c.args[0].slice
            n += 1
            lo = sl.lower.value if isinstance(sl.lower, ast.Constant) else (
                0 if sl.lower is None else None)
            ok = sl.upper is None and sl.step is None and lo in (0, 1)
            ctx.ob('C06.R9', 'extract_exclusive_filters:trailing-hops', ok,
                   f'the hops of a filter path that must be exclusive are '
                   f'taken as `{norm(c.args[0])}`: the last hop (or more) '
                   f'is not required to be exclusive, so `.best_friend.nick '
                   f'= ..` with a non-exclusive `nick` is reported as '
                   f'selecting at most one object',
                   f'{f.module.rel()}:{c.lineno}',
                   sample=norm(c.args[0]))
    if not n:
        raise AnalysisError('C06.R9: the trailing-hops test of '
                            'extract_exclusive_filters not found')
