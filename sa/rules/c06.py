"""C06 — reported cardinality / multiplicity bound the result.

  R1 reported = inferred (provenance)
  R2 enum mapping identity ir.Cardinality -> protocol Cardinality
  R3 inference dispatch exhaustiveness (cardinality & multiplicity, siblings)
  R4 declared-cardinality enforcement sites
  R5 four bound facts forced by set semantics
"""
from __future__ import annotations

import ast
from typing import Dict, List, Optional, Set

from .. import visitors as V
from ..cfg import CFG
from ..model import (AnalysisError, FuncInfo, Repo, call_name, dotted, kwarg,
                     module_calls, norm, walk_no_nested)

COMP = 'edb.server.compiler.compiler'
ENUMS = 'edb.server.compiler.enums'
CARD = 'edb.edgeql.compiler.inference.cardinality'
MULT = 'edb.edgeql.compiler.inference.multiplicity'
IR = 'edb.ir.ast'

# leaf IR classes that deliberately do not go through the registry
INLINE = {
    'SetE': 'Set nodes are routed to _infer_set by the entry point '
            '(isinstance(ir, irast.Set)) before the registry is consulted',
    'TypeIntersectionPointer': 'Pointer-as-Expr: handled inline by the Set '
                               'handler via irutils.sub_expr / '
                               'isinstance(.., irast.Pointer)',
    'TupleIndirectionPointer': 'same: Pointer handled by the Set handler',
    'Pointer': 'same',
}
MULT_ONLY_INLINE = {
    'Statement': 'multiplicity is inferred on Statement.expr by '
                 'infer_toplevel / the cardinality handler; the entry point '
                 'is never called with a Statement',
}


def run(repo: Repo, ctx) -> None:
    ctx.explanation = (
        'Decides: R1 the cardinality stored in the compiled Query / unit '
        'derives only from ir.cardinality of the same IR through '
        'cardinality_from_ir_value (or the NO_RESULT constant under the '
        'no-output format), and pointer cardinalities in descriptors from '
        'the schema\'s (required, cardinality) pair; R2 that mapping is the '
        'identity on member names and covers every member; R3 every '
        'concrete IR expression/statement class resolves (singledispatch '
        'MRO) to a non-raising cardinality and multiplicity handler, with '
        'reasoned inline exceptions, and the two registries agree on their '
        'domain; R4 a declared single/required pointer or global is '
        'enforced by comparing inferred with specified bounds in the right '
        'direction before the pointer is updated; R5 four bound facts that '
        'set semantics forces (EXCEPT/INTERSECT lower bound zero, UNION '
        'sums, empty set may be empty, DISTINCT yields UNIQUE and the '
        'multi fall-through is DUPLICATE). Soundness of the rest of the '
        'bounds algebra is NOT decided.')
    ctx.not_decided = ['soundness of cartesian/coalesce/filter/LIMIT/FOR '
                       'bounds reasoning', 'DISTINCT elision']
    cm = repo.module(COMP)

    # ---- R1 provenance ---------------------------------------------------
    ctx.floor('C06.R1', 4)
    qfn = repo.func(f'{COMP}._compile_ql_query')
    ctx.saw(qfn)
    assigns = [n for n in walk_no_nested(qfn.node)
               if isinstance(n, ast.Assign)
               and norm(n.targets[0]) == 'result_cardinality']
    if not assigns:
        raise AnalysisError('C06.R1: result_cardinality not found')
    g = CFG(qfn.node)
    for a in assigns:
        v = norm(a.value)
        if v == 'enums.cardinality_from_ir_value(ir.cardinality)':
            ok, why = True, 'from ir.cardinality'
        elif v == 'enums.Cardinality.NO_RESULT':
            # only under the no-output format
            nid = g.nodes_of(a)
            tests = [t.id for t in g.nodes if t.kind == 'test' and norm(
                t.ast) == 'ctx.output_format is enums.OutputFormat.NONE']
            ok = bool(nid) and any(g.edge_dominates(t, 'T', nid[0])
                                   for t in tests)
            why = 'NO_RESULT under OutputFormat.NONE'
        else:
            ok, why = False, v
        ctx.ob('C06.R1', f'_compile_ql_query:result_cardinality={v[:40]}',
               ok, f'reported cardinality assigned from `{v}`: not derived '
               f'from the inferred ir.cardinality', f'{cm.rel()}:{a.lineno}',
               sample=why)
    # the ir is the one compiled from this statement
    irb = [n for n in walk_no_nested(qfn.node) if isinstance(n, ast.Assign)
           and norm(n.targets[0]) == 'ir']
    ok = bool(irb) and all('compile_ast_to_ir' in norm(b.value)
                           for b in irb)
    ctx.ob('C06.R1', '_compile_ql_query:ir-source', ok,
           '`ir` is not the result of compiling this statement', qfn.loc,
           sample='ir = qlcompiler.compile_ast_to_ir(ql, ...)')
    qc = [c for c in module_calls(cm).get('Query', [])
          if norm(c.func) == 'dbstate.Query'
          and kwarg(c, 'cardinality') is not None]
    for c in qc:
        fn = repo.enclosing_function(cm, c)
        v = norm(kwarg(c, 'cardinality'))
        ok = v == 'result_cardinality' if fn is qfn else (
            'NO_RESULT' in v or 'cardinality' in v)
        ctx.ob('C06.R1', f'{fn.name if fn else "?"}:Query.cardinality', ok,
               f'dbstate.Query(cardinality={v})', f'{cm.rel()}:{c.lineno}',
               sample=v)
    # unit.cardinality <- comp.cardinality
    ua = []
    for f in repo._funcs_of(cm):
        for n in walk_no_nested(f.node):
            if isinstance(n, ast.Assign) and norm(n.targets[0]) == \
                    'unit.cardinality':
                ua.append((f, n))
    if not ua:
        raise AnalysisError('C06.R1: unit.cardinality assignment not found')
    for f, n in ua:
        v = norm(n.value)
        ok = v in ('comp.cardinality', 'enums.Cardinality.NO_RESULT')
        ctx.ob('C06.R1', f'{f.name}:unit.cardinality={v}', ok,
               f'unit.cardinality = {v}', f'{cm.rel()}:{n.lineno}', sample=v)
    cfp = repo.func('edb.server.compiler.sertypes.cardinality_from_ptr')
    txt = norm(cfp.node)
    ok = 'required = ptr.get_required(schema)' in txt and \
        'schema_card = ptr.get_cardinality(schema)' in txt and \
        'qltypes.Cardinality.from_schema_value(required, schema_card)' \
        in txt and 'return enums.cardinality_from_ir_value(ir_card)' in txt
    ctx.ob('C06.R1', 'sertypes.cardinality_from_ptr', ok,
           'shape-element cardinality is not derived from the pointer\'s '
           '(required, cardinality) pair', cfp.loc,
           sample='from_schema_value(required, card) -> '
                  'cardinality_from_ir_value')

    # ---- R2 mapping identity ------------------------------------------------
    ctx.floor('C06.R2', 4)
    mp = repo.func(f'{ENUMS}.cardinality_from_ir_value')
    ctx.saw(mp)
    src = repo.cls('edb.edgeql.qltypes.Cardinality')
    members = [k for k in src.assign_fields if k.isupper()
               and k != 'UNKNOWN']
    pairs = {}
    node = mp.node.body[0] if mp.node.body else None
    while isinstance(node, ast.If):
        t = norm(node.test)
        if t.startswith('card is ir.Cardinality.') and len(node.body) == 1 \
                and isinstance(node.body[0], ast.Return):
            pairs[t.split('.')[-1]] = norm(node.body[0].value).split('.')[-1]
        if len(node.orelse) == 1 and isinstance(node.orelse[0], ast.If):
            node = node.orelse[0]
        else:
            tail = node.orelse
            node = None
    for k in members:
        ctx.ob('C06.R2', f'cardinality_from_ir_value:{k}',
               pairs.get(k) == k,
               f'ir cardinality {k} is reported to clients as '
               f'{pairs.get(k)}', mp.loc, sample=f'{k} -> {pairs.get(k)}')
    ok = bool(tail) and isinstance(tail[0], ast.Raise)
    ctx.ob('C06.R2', 'cardinality_from_ir_value:else-raises', ok,
           'unknown cardinality is mapped silently', mp.loc, sample='raise')
    # the target enum is the protocol enum with those members
    em = repo.module(ENUMS)
    tgt = em.imports.get('Cardinality', '')
    pcls = repo.classes.get(repo.canon(tgt)) or repo.classes.get(
        f'{ENUMS}.Cardinality')
    ok = pcls is not None and all(k in pcls.assign_fields for k in members) \
        and 'NO_RESULT' in pcls.assign_fields
    vals = []
    if pcls is not None:
        vals = [norm(v) for v in pcls.assign_fields.values()]
    ok = ok and len(vals) == len(set(vals))
    ctx.ob('C06.R2', 'protocol.Cardinality:members', ok,
           'the client-facing Cardinality enum lacks a member / has '
           'duplicate byte values', pcls.loc if pcls else em.rel(),
           sample=sorted(pcls.assign_fields) if pcls else None)

    # ---- R3 exhaustiveness ---------------------------------------------------------
    ctx.floor('C06.R3', 60)
    roots = [f'{IR}.Expr', f'{IR}.Stmt', f'{IR}.SetE', f'{IR}.Statement',
             f'{IR}.ConfigCommand']
    leaves = [q for q in sorted(repo.classes) if q.startswith(IR + '.')
              and not repo.subclasses(q, strict=True)
              and any(x in repo.mro(q) for x in roots)]
    if len(leaves) < 30:
        raise AnalysisError(f'C06.R3: only {len(leaves)} IR leaf classes')
    regs = {}
    for mod, fname, label in ((CARD, '_infer_cardinality', 'cardinality'),
                              (MULT, '_infer_multiplicity', 'multiplicity')):
        reg = V.singledispatch_registry(repo, mod, fname)
        if len(reg) < 20:
            raise AnalysisError(f'C06.R3: {fname} registry not extracted')
        regs[label] = reg
        entry = repo.func(f'{mod}.infer_{label}')
        entry_sets = any(isinstance(n, ast.If) and norm(n.test) ==
                         'isinstance(ir, irast.Set)'
                         for n in ast.walk(entry.node))
        for q in leaves:
            nm = q.split('.')[-1]
            h = V.dispatch(repo, reg, q)
            raising = h is not None and _always_raises(h)
            if nm in INLINE or (label == 'multiplicity'
                                and nm in MULT_ONLY_INLINE):
                why = INLINE.get(nm) or MULT_ONLY_INLINE[nm]
                ok = entry_sets if nm == 'SetE' else True
                ctx.ob('C06.R3', f'{label}:class={nm}', ok,
                       f'{nm}: the inline handling this exception relies on '
                       f'({why}) is gone', entry.loc,
                       sample='inline: ' + why, nontrivial=False)
                continue
            ctx.ob('C06.R3', f'{label}:class={nm}',
                   h is not None and not raising,
                   f'IR class {nm} has no {label} inference handler '
                   f'(falls to the raising default'
                   f'{" / a handler that always raises" if raising else ""}'
                   f'): queries containing it cannot be given a {label}',
                   repo.classes[q].loc,
                   sample=h.name if h else None)
    # sibling agreement on explicitly registered classes
    only_c = set(regs['cardinality']) - set(regs['multiplicity'])
    only_m = set(regs['multiplicity']) - set(regs['cardinality'])
    for q in sorted(only_c):
        nm = q.split('.')[-1]
        if not any(x in repo.mro(q) for x in roots):
            continue   # not an expression class (e.g. TypeRef)
        covered = V.dispatch(repo, regs['multiplicity'], q) is not None \
            or nm in INLINE or nm in MULT_ONLY_INLINE
        ctx.ob('C06.R3', f'sibling:cardinality-only={nm}', covered,
               f'{nm} has a cardinality handler but multiplicity inference '
               f'cannot handle it', repo.classes[q].loc if q in repo.classes
               else '', sample='covered by ancestor / inline',
               nontrivial=False)

    # ---- R4 enforcement sites --------------------------------------------------------
    ctx.floor('C06.R4', 4)
    pc = repo.func(f'{CARD}._infer_pointer_cardinality')
    ctx.saw(pc)
    g = CFG(pc.node)
    upper = [t for t in g.nodes if t.kind == 'test'
             and norm(t.ast) == 'inf_upper_bound > spec_upper_bound']
    lower = [t for t in g.nodes if t.kind == 'test'
             and norm(t.ast) == 'inf_lower_bound < spec_lower_bound']
    updates = [n.id for n in g.nodes if any(
        norm(c.func) == 'ptrcls.set_field_value'
        for c in g.node_calls(n))]
    if not updates:
        raise AnalysisError('C06.R4: pointer cardinality update not found')

    def raises_on_true(t, unless: Optional[str] = None) -> bool:
        ts = [s for s, lab in g.nodes[t.id].succ if lab == 'T']
        r = g.reachable(ts) | set(ts)
        rs = [x for x in r if isinstance(g.nodes[x].ast, ast.Raise)
              and 'QueryError' in norm(g.nodes[x].ast)]
        if not rs:
            return False
        if unless is None:
            # no path from the T edge reaches an update without raising
            return not (set(updates) & g.reachable(
                ts, avoid=rs)) and not (set(ts) & set(updates))
        # allowed escape: a test on `unless`
        esc = [x for x in r if g.nodes[x].kind == 'test'
               and norm(g.nodes[x].ast) == unless]
        return bool(esc)
    ok = len(upper) == 1 and raises_on_true(upper[0])
    ctx.ob('C06.R4', '_infer_pointer_cardinality:upper-bound', ok,
           'an expression that may return more than one element is accepted '
           'for a pointer declared single (comparison inf_upper > '
           'spec_upper -> QueryError missing or bypassable)', pc.loc,
           sample='inf_upper_bound > spec_upper_bound -> raise')
    ok = len(lower) == 1 and raises_on_true(lower[0],
                                            unless='is_mut_assignment')
    ctx.ob('C06.R4', '_infer_pointer_cardinality:lower-bound', ok,
           'an expression that may be empty is accepted for a computed '
           'pointer declared required', pc.loc,
           sample='inf_lower_bound < spec_lower_bound -> raise unless '
                  'mutation assignment')
    # the comparisons dominate the update when a spec is present
    spec = [t for t in g.nodes if t.kind == 'test' and norm(t.ast) ==
            'spec_upper_bound is None and spec_lower_bound is None']
    ok = len(spec) == 1 and all(g.always_before(u, [spec[0].id])
                                for u in updates)
    ctx.ob('C06.R4', '_infer_pointer_cardinality:check-before-update', ok,
           'the pointer is updated on a path that skipped the '
           'specified-vs-inferred comparison', pc.loc,
           sample='bounds comparison dominates set_field_value')
    cs = repo.func(f'{CARD}.__infer_config_set')
    tests = {norm(n.test): n for n in ast.walk(cs.node)
             if isinstance(n, ast.If)}
    ok = all(k in tests and any(isinstance(x, ast.Raise) for x in
                                tests[k].body)
             for k in ('ir.required and card.can_be_zero()',
                       'ir.cardinality.is_single() and (not card.is_single())'))
    ctx.ob('C06.R4', '__infer_config_set:global-bounds', ok,
           'a global declared required/single accepts an expression that '
           'may be empty / multi', cs.loc,
           sample='required&can_be_zero -> raise; single&multi -> raise')

    # ---- R5 forced bound facts -----------------------------------------------------
    ctx.floor('C06.R5', 6)
    oc = repo.func(f'{CARD}.__infer_oper_call')
    arms = _name_arms(oc)
    for op in ('std::EXCEPT', 'std::INTERSECT'):
        body = arms.get(op)
        rets = [norm(r.value) for st in (body or [])
                for r in ast.walk(st) if isinstance(r, ast.Return)]
        ok = bool(rets) and all(r.startswith('_bounds_to_card(CB_ZERO,')
                                for r in rets)
        ctx.ob('C06.R5', f'cardinality:{op}:lower-zero', ok,
               f'{op} is given a non-zero lower bound ({rets}): '
               f'{{1}} {op.split("::")[1].lower()} {{1}}-style results can '
               f'be empty whatever the operands', oc.loc, sample=rets)
    body = arms.get('std::UNION')
    rets = [r for st in (body or []) for r in ast.walk(st)
            if isinstance(r, ast.Return)]
    ok = False
    if len(rets) == 1 and isinstance(rets[0].value, ast.Call):
        comb = repo.functions.get(f'{CARD}.{call_name(rets[0].value)}')
        if comb is not None:
            t = norm(comb.node)
            ok = 'sum(lower' in t and 'sum(upper' in t and 'max(' not in t
    ctx.ob('C06.R5', 'cardinality:std::UNION:sums', ok,
           'UNION does not add the operands\' bounds ({1} union {2} has two '
           'elements though both operands are ONE)', oc.loc,
           sample='_union_cardinality: sum(lower), sum(upper)')
    es = V.dispatch(repo, regs['cardinality'], f'{IR}.EmptySet')
    rets = [norm(r.value) for r in ast.walk(es.node)
            if isinstance(r, ast.Return)] if es else []
    ok = bool(rets) and all(r in ('AT_MOST_ONE', 'MANY') for r in rets)
    ctx.ob('C06.R5', 'cardinality:EmptySet:can-be-empty', ok,
           f'the empty set is inferred as {rets}: lower bound must be zero',
           es.loc if es else '', sample=rets)
    mo = repo.func(f'{MULT}.__infer_oper_call')
    marms = _name_arms(mo, var='op_name')
    body = marms.get('std::DISTINCT')
    rets = [norm(r.value) for st in (body or []) for r in ast.walk(st)
            if isinstance(r, ast.Return)]
    ok = bool(rets) and set(rets) <= {'UNIQUE', 'EMPTY'} and 'UNIQUE' in rets
    ctx.ob('C06.R5', 'multiplicity:std::DISTINCT', ok,
           f'DISTINCT returns {rets}: it must be UNIQUE (or EMPTY)', mo.loc,
           sample=rets)
    tail = marms.get('<else>')
    rets = [norm(r.value) for st in (tail or []) for r in ast.walk(st)
            if isinstance(r, ast.Return)]
    ok = rets == ['DUPLICATE']
    ctx.ob('C06.R5', 'multiplicity:fall-through', ok,
           f'the fall-through for a multi-cardinality operator returns '
           f'{rets}: {{1, 2}} - {{1, 2}} contains 0 twice, so it must be '
           f'DUPLICATE', mo.loc, sample=rets)
    # the UNIQUE-for-single shortcut is guarded by card.is_single()
    single = [n for n in ast.walk(mo.node) if isinstance(n, ast.If)
              and norm(n.test) == 'card.is_single()']
    ok = len(single) == 1 and [norm(s) for s in single[0].body] == \
        ['return UNIQUE']
    ctx.ob('C06.R5', 'multiplicity:single-is-unique', ok,
           'operator results are declared UNIQUE without the '
           'single-cardinality test', mo.loc,
           sample='elif card.is_single(): return UNIQUE')


def _always_raises(fn: FuncInfo) -> bool:
    body = [s for s in fn.node.body if not (isinstance(s, ast.Expr)
                                            and isinstance(s.value,
                                                           ast.Constant))]
    return bool(body) and isinstance(body[0], ast.Raise)


def _name_arms(fn: FuncInfo, var: Optional[str] = None) -> Dict[str, list]:
    """arms of an if/elif chain testing an operator name against string
    constants: {name: body}; '<else>' for the final else."""
    out: Dict[str, list] = {}
    for st in fn.node.body:
        if not isinstance(st, ast.If):
            continue
        node = st
        found = False
        while isinstance(node, ast.If):
            t = node.test
            names = []
            if isinstance(t, ast.Compare) and len(t.ops) == 1:
                c = t.comparators[0]
                if isinstance(t.ops[0], ast.Eq) and isinstance(
                        c, ast.Constant) and isinstance(c.value, str):
                    names = [c.value]
                elif isinstance(t.ops[0], ast.In) and isinstance(
                        c, (ast.Tuple, ast.List, ast.Set)):
                    names = [e.value for e in c.elts
                             if isinstance(e, ast.Constant)]
            for nme in names:
                if nme.startswith('std::'):
                    out[nme] = node.body
                    found = True
            if len(node.orelse) == 1 and isinstance(node.orelse[0], ast.If):
                node = node.orelse[0]
            else:
                if found:
                    out['<else>'] = node.orelse
                node = None
        if found:
            break
    return out
