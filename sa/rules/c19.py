"""C19 — configuration commands compose and persist as specified.

Rules R1–R7 of DESIGN §3/C19.
"""
from __future__ import annotations

import ast
from typing import List, Set

from ..cfg import CFG
from ..model import (AnalysisError, FuncInfo, Repo, call_name, dotted, kwarg,
                     module_calls, norm, walk_no_nested)

OPS = 'edb.server.config.ops'
CFGMOD = 'edb.server.config'
STA = 'edb.ir.statypes'
PGCFG = 'edb.pgsql.compiler.config'
STAEVAL = 'edb.ir.staeval'


def _isinst_classes(repo, mod, test) -> List[str]:
    """Classes named in `_issubclass(setting.type, X)` / isinstance tests."""
    out = []
    for c in ast.walk(test):
        if isinstance(c, ast.Call) and call_name(c) in (
                '_issubclass', 'issubclass', 'isinstance') and len(
                    c.args) == 2:
            t = c.args[1]
            for x in (t.elts if isinstance(t, ast.Tuple) else [t]):
                r = repo.resolve_expr(mod, x)
                if r:
                    out.append(r)
    return out


def _run_main(repo: Repo, ctx) -> None:
    ctx.explanation = (
        'Decides for the configuration machinery: R1 value coercion '
        '(validation) dominates every storage write in Operation.apply and '
        'storage is only rebound to results of persistent operations; R2 '
        'apply has an arm for every OpCode, _set_value for every scope; R3 '
        'lookup scans its maps in the given order, first hit wins, default '
        'otherwise, and the compiler passes session, database, system in '
        'that order; R4 JSON writer/reader key agreement, the SQL producer '
        'of operation rows matches Operation.from_json\'s unpack order and '
        'emits only valid opcodes for its IR class, value_to/from_json case '
        'split agreement; R5 every ScalarType subclass is handled by the '
        'sibling conversion functions; R6 each opcode arm performs its '
        'storage operation (set / delete / union-after-uniqueness / '
        'difference); R7 static evaluation maps each ConfigCommand to the '
        'namesake opcode with scope and name unchanged. Value-level round '
        'trips of Duration/Memory text are not decided.')
    ctx.not_decided = ['Duration/ConfigMemory text round trip',
                       'protocol/execute.pyx and dbview.pyx consumers']
    opcls = repo.cls(f'{OPS}.Operation')
    apply_ = repo.find_method(opcls.qualname, 'apply')
    if apply_ is None:
        raise AnalysisError('Operation.apply not found')
    ctx.saw(apply_)
    opsmod = repo.module(OPS)

    # ---- R1 validate then write ------------------------------------------
    ctx.floor('C19.R1', 3)
    g = CFG(apply_.node)
    coerce = [n.id for n in g.nodes if any(
        isinstance(c.func, ast.Attribute) and c.func.attr in (
            'coerce_value', 'coerce_global_value')
        for c in g.node_calls(n))]
    writes = [n for n in g.nodes if n.kind == 'stmt' and isinstance(
        n.ast, ast.Assign) and norm(n.ast.targets[0]) == 'storage']
    if not coerce or not writes:
        raise AnalysisError('C19.R1: coerce / storage writes not found')
    for w in writes:
        ok = g.always_before(w.id, coerce) and w.id not in g.reachable(
            [g.entry], avoid_edges={(c, 'n') for c in coerce})
        ctx.ob('C19.R1', f'Operation.apply:write@{_arm(g, w.id)}', ok,
               'storage is written on a path where the value has not been '
               'coerced/validated (an invalid value would change the '
               'configuration)', f'{apply_.module.rel()}:{w.lineno}',
               sample='coerce_value dominates the write')
        v = w.ast.value
        ok = isinstance(v, ast.Call) and (
            norm(v.func) in ('self._set_value', 'storage.delete'))
        ctx.ob('C19.R1', f'Operation.apply:persistent@{_arm(g, w.id)}', ok,
               f'storage rebound to `{norm(v)[:60]}`: not the result of a '
               f'persistent map operation', f'{apply_.module.rel()}:'
               f'{w.lineno}', sample=norm(v)[:60])
    # no in-place mutation of storage
    bad = []
    for n in ast.walk(apply_.node):
        if isinstance(n, (ast.Assign, ast.AugAssign, ast.Delete)):
            tg = n.targets if not isinstance(n, ast.AugAssign) else [n.target]
            for t in tg:
                if isinstance(t, ast.Subscript) and norm(t.value) == 'storage':
                    bad.append(n.lineno)
        if isinstance(n, ast.Call) and isinstance(n.func, ast.Attribute) \
                and norm(n.func.value) == 'storage' and n.func.attr in (
                    'update', 'pop', 'clear', 'setdefault', 'popitem'):
            bad.append(n.lineno)
    ctx.ob('C19.R1', 'Operation.apply:no-mutation', not bad,
           f'storage mutated in place at lines {bad}', apply_.loc,
           sample='storage never subscripted-assigned / mutated')
    # coerce_value failure paths raise ConfigurationError (reject)
    cv = repo.find_method(opcls.qualname, 'coerce_value')
    n_raise = sum(1 for n in ast.walk(cv.node) if isinstance(n, ast.Raise))
    ctx.ob('C19.R1', 'Operation.coerce_value:rejects', n_raise >= 3,
           'coerce_value no longer raises on invalid values', cv.loc,
           sample=f'{n_raise} raise sites')
    csv = repo.func(f'{OPS}.coerce_single_value')
    last = csv.node.body[-1]
    while isinstance(last, ast.If) and last.orelse:
        last = last.orelse[-1] if not (len(last.orelse) == 1 and isinstance(
            last.orelse[0], ast.If)) else last.orelse[0]
    ok = isinstance(last, ast.Raise) and 'ConfigurationError' in norm(last)
    ctx.ob('C19.R1', 'coerce_single_value:else-raises', ok,
           'a value of the wrong type falls through coerce_single_value '
           'without an error', csv.loc, sample='else: raise '
                                               'ConfigurationError')

    # ---- R1b / R8 helpers the round trip and the uniqueness check rely on --
    st = repo.module(STA)
    # (a) exclusive-field site is the TOP-MOST ancestor declaring the field
    # unique: _check_object_set_uniqueness buckets values by it, so sibling
    # subtypes sharing an exclusive parent field are compared with each other
    us = repo.functions.get(f'{STA}.CompositeTypeSpec.get_field_unique_site')
    if us is None:
        raise AnalysisError('get_field_unique_site not found')
    loops = [n for n in ast.walk(us.node) if isinstance(n, ast.While)]
    ok = len(loops) == 1 and not any(isinstance(x, ast.Return)
                                     for x in ast.walk(loops[0])) and any(
        isinstance(x, ast.Assign) and norm(x.value).endswith('.parent')
        for x in ast.walk(loops[0]))
    ctx.ob('C19.R1', 'CompositeTypeSpec.get_field_unique_site:top-most', ok,
           'the uniqueness site is no longer the top-most ancestor that '
           'declares the field exclusive (the walk stops early): values of '
           'sibling config-object subtypes are bucketed separately and a '
           'duplicate of an inherited exclusive field is accepted', us.loc,
           sample='walks to the root; last match wins')
    cu = repo.func(f'{OPS}._check_object_set_uniqueness')
    ok = 'get_field_unique_site(' in norm(cu.node) and \
        'raise errors.ConstraintViolationError' in norm(cu.node)
    ctx.ob('C19.R1', '_check_object_set_uniqueness:uses-site', ok,
           'object-set uniqueness no longer buckets by the unique site / '
           'no longer rejects duplicates', cu.loc,
           sample='bucket by get_field_unique_site; raise on duplicate')
    # (b) a remainder of divmod(x, 10**k) printed after a decimal point is
    # zero-padded to k digits (else 50ms prints as .5 = 500ms)
    n_frac = 0
    for f in repo._funcs_of(st):
        if f.cls is None:
            continue
        for n in walk_no_nested(f.node):
            if isinstance(n, ast.Assign) and isinstance(
                    n.targets[0], ast.Tuple) and isinstance(
                        n.value, ast.Call) and call_name(n.value) == 'divmod' \
                    and len(n.value.args) == 2 and isinstance(
                        n.value.args[1], ast.Constant) and isinstance(
                        n.value.args[1].value, int):
                base_ = n.value.args[1].value
                k = len(str(base_)) - 1
                if base_ != 10 ** k or k < 2:
                    continue
                rem = norm(n.targets[0].elts[1])
                uses = []
                for x in ast.walk(f.node):
                    if isinstance(x, ast.FormattedValue) and rem in {
                            y.id for y in ast.walk(x.value)
                            if isinstance(y, ast.Name)}:
                        uses.append(x)
                for x in uses:
                    n_frac += 1
                    txt = norm(x.value)
                    spec = norm(x.format_spec) if x.format_spec else ''
                    padded = (f"rjust({k}, '0')" in txt
                              or f'zfill({k})' in txt
                              or f'0{k}' in spec)
                    ctx.ob('C19.R4', f'{f.cls.name}.{f.name}:fraction-'
                           f'padding={rem}', padded,
                           f'{f.cls.name}.{f.name} prints the remainder '
                           f'`{rem}` of divmod(.., {base_}) without padding '
                           f'it to {k} digits: a value below one tenth of '
                           f'the unit loses its leading zeros (50ms -> '
                           f'"0.5" = 500ms) and the stored configuration '
                           f'does not survive the JSON / DESCRIBE round '
                           f'trip', f'{f.module.rel()}:{x.lineno}',
                           sample=txt[:60])
    if n_frac < 1:
        raise AnalysisError('C19: no fractional formatting site found in '
                            'statypes (anchor vanished)')

    # ---- R2 exhaustiveness ------------------------------------------------
    ctx.floor('C19.R2', 6)
    opcode = repo.cls(f'{OPS}.OpCode')
    members = list(opcode.assign_fields)
    arms = {}
    for t in g.nodes:
        if t.kind == 'test' and norm(t.ast).startswith(
                'self.opcode is OpCode.'):
            arms[norm(t.ast).split('.')[-1]] = t.id
    for m in members:
        ctx.ob('C19.R2', f'Operation.apply:opcode={m}', m in arms,
               f'Operation.apply has no arm for OpCode.{m}', apply_.loc,
               sample='arm present')
    sv = repo.find_method(opcls.qualname, '_set_value')
    scopes = list(repo.cls('edb.edgeql.qltypes.ConfigScope').assign_fields)
    from ..shapes import reach, mentions_member
    rn = reach(repo, sv)
    txt = '\n'.join(norm(n) for n in rn)
    for s in scopes:
        ctx.ob('C19.R2', f'Operation._set_value:scope={s}',
               mentions_member(rn, 'ConfigScope', s),
               f'_set_value has no source for scope {s}', sv.loc,
               sample='arm present')
    ctx.ob('C19.R2', 'Operation._set_value:else-raises',
           'raise AssertionError' in txt, 'unknown scope does not raise',
           sv.loc, sample='else: raise')
    c = [x for x in ast.walk(sv.node) if isinstance(x, ast.Call)
         and call_name(x) == 'set_value']
    ok = len(c) == 1 and norm(c[0].args[1]) == 'self.setting_name' and \
        norm(c[0].args[2]) == 'value' and norm(kwarg(c[0], 'scope')) == \
        'self.scope' and norm(c[0].args[0]) == 'storage'
    ctx.ob('C19.R2', 'Operation._set_value:stores-own-setting', ok,
           '_set_value does not store (self.setting_name, value, '
           'scope=self.scope) into the given storage', sv.loc,
           sample='set_value(storage, self.setting_name, value, scope='
                  'self.scope)')

    # ---- R6 opcode <-> storage operation --------------------------------
    ctx.floor('C19.R6', 4)

    def arm_nodes(m):
        t = arms.get(m)
        if t is None:
            return set()
        ts = [s for s, lab in g.nodes[t].succ if lab == 'T']
        # stop at the join: the final `return storage`
        rets = [n.id for n in g.nodes if n.kind == 'stmt'
                and isinstance(n.ast, ast.Return)]
        return (g.reachable(ts, stop_at=rets, labels={'n', 'T', 'F'})
                | set(ts)) - set(rets)

    def arm_stmts(m):
        return [g.nodes[x] for x in sorted(arm_nodes(m))
                if g.nodes[x].kind == 'stmt' and g.nodes[x].ast is not None]
    s_set = [norm(n.ast) for n in arm_stmts('CONFIG_SET')]
    ctx.ob('C19.R6', 'Operation.apply:SET', s_set ==
           ['storage = self._set_value(storage, value, source=source)'],
           f'SET arm is {s_set}', apply_.loc, sample=s_set)
    s_reset = [norm(n.ast) for n in arm_stmts('CONFIG_RESET')]
    ok = 'storage = storage.delete(self.setting_name)' in s_reset and not \
        any('_set_value' in x for x in s_reset)
    ctx.ob('C19.R6', 'Operation.apply:RESET', ok,
           f'RESET arm is {s_reset}', apply_.loc, sample=s_reset[:2])
    storage_p = apply_.params()[2] if len(apply_.params()) > 2 else 'storage'
    # the coerced operand of the operation (bound before the opcode chain)
    operand = {norm(t) for n in walk_no_nested(apply_.node)
               if isinstance(n, ast.Assign) and isinstance(n.value, ast.Call)
               and norm(n.value.func) in ('self.coerce_value',
                                          'self.coerce_global_value')
               for t in n.targets}
    for m, kind in (('CONFIG_ADD', 'add'), ('CONFIG_REM', 'rem')):
        st = [n.ast for n in arm_stmts(m)]
        # roles: E := storage.get(self.setting_name); X := E.value | default
        getv = {norm(a.targets[0]) for a in st if isinstance(a, ast.Assign)
                and norm(a.value) == f'{storage_p}.get(self.setting_name)'}
        xdefs = {}
        for a in st:
            if isinstance(a, ast.Assign) and isinstance(
                    a.targets[0], ast.Name):
                xdefs.setdefault(a.targets[0].id, []).append(norm(a.value))
        exist = [v for v, ds in xdefs.items() if len(ds) == 2 and any(
            d in {f'{e}.value' for e in getv} for d in ds)
            and 'setting.default' in ds]
        exist_ok = bool(getv) and len(exist) == 1
        # the stored value: second argument of _set_value in this arm
        stores = [a for a in st if isinstance(a, ast.Assign)
                  and norm(a.targets[0]) == storage_p
                  and isinstance(a.value, ast.Call)
                  and norm(a.value.func) == 'self._set_value']
        store_ok = len(stores) == 1 and len(stores[0].value.args) >= 2 and \
            norm(stores[0].value.args[0]) == storage_p and \
            norm(kwarg(stores[0].value, 'source') or ast.Constant(None)) \
            == 'source'
        nv = []
        op_ok = False
        if store_ok and exist_ok:
            nvn = norm(stores[0].value.args[1])
            nv = xdefs.get(nvn, [nvn])
            x = exist[0]
            opnd = sorted(operand)[0] if operand else 'value'
            if kind == 'add':
                op_ok = len(nv) == 1 and nv[0].startswith(
                    '_check_object_set_uniqueness(setting, ') and \
                    f'list({x}) + [{opnd}]' in nv[0]
            else:
                op_ok = nv == [f'{x} - {{{opnd}}}']
        guard_ok = any('not isinstance(setting.type, types.ConfigTypeSpec)'
                       in norm(t.ast) for t in g.nodes if t.kind == 'test'
                       and t.id in arm_nodes(m))
        ctx.ob('C19.R6', f'Operation.apply:{m[7:]}',
               exist_ok and op_ok and store_ok and guard_ok,
               f'{m[7:]} arm: existing-or-default={exist_ok} '
               f'operator={op_ok} ({nv}) stored={store_ok} '
               f'object-only-guard={guard_ok}', apply_.loc,
               sample=nv)
    # allow_missing only for REM / RESET
    am = [n for n in walk_no_nested(apply_.node) if isinstance(n, ast.Assign)
          and norm(n.targets[0]) == 'allow_missing']
    ok = len(am) == 1 and set(
        x.strip() for x in norm(am[0].value).split(' or ')) == {
            'self.opcode is OpCode.CONFIG_REM',
            'self.opcode is OpCode.CONFIG_RESET'}
    ctx.ob('C19.R6', 'Operation.apply:allow_missing', ok,
           'a missing value is tolerated for opcodes other than REM/RESET '
           '(SET/ADD of nothing would be accepted)', apply_.loc,
           sample=norm(am[0].value) if am else None)

    # ---- R3 lookup order -------------------------------------------------
    ctx.floor('C19.R3', 3)
    lk = repo.func(f'{CFGMOD}.lookup')
    ctx.saw(lk)
    va = lk.node.args.vararg.arg if lk.node.args.vararg else None
    loops = [n for n in lk.node.body if isinstance(n, ast.For)]
    ok = va is not None and len(loops) == 1 and norm(loops[0].iter) == va
    ctx.ob('C19.R3', 'lookup:iterates-in-given-order', ok,
           f'lookup does not iterate its *{va} in the order given '
           f'({norm(loops[0].iter) if loops else None})', lk.loc,
           sample=f'for c in {va}')
    if loops:
        lp = loops[0]
        tr = [s for s in lp.body if isinstance(s, ast.Try)]
        ok = len(tr) == 1 and len(lp.body) == 1 and tr[0].orelse and \
            isinstance(tr[0].orelse[0], ast.Return) and \
            norm(tr[0].orelse[0].value).endswith('.value') and \
            len(tr[0].handlers) == 1 and norm(tr[0].handlers[0].type) == \
            'KeyError' and all(isinstance(s, ast.Pass)
                               for s in tr[0].handlers[0].body) and \
            norm(tr[0].body[0]).endswith(f'{norm(lp.target)}[name]')
        ctx.ob('C19.R3', 'lookup:first-hit-wins', ok,
               'lookup does not return the value from the first map that '
               'contains the name', lk.loc,
               sample='try c[name] except KeyError: pass else: return')
        ok = bool(lp.orelse) and isinstance(lp.orelse[0], ast.Return) and \
            norm(lp.orelse[0].value) == 'setting.default'
        ctx.ob('C19.R3', 'lookup:default', ok,
               'lookup does not fall back to the setting default', lk.loc,
               sample='for..else: return setting.default')
    gcv = repo.func('edb.server.compiler.compiler._get_config_val')
    c = [x for x in ast.walk(gcv.node) if isinstance(x, ast.Call)
         and norm(x.func) == 'config.lookup']
    got = [norm(a) for a in c[0].args[1:]] if c else []
    want = ['current_tx.get_session_config()',
            'current_tx.get_database_config()',
            'current_tx.get_system_config()']
    ctx.ob('C19.R3', '_get_config_val:most-specific-first', got == want,
           f'compiler looks settings up in order {got}; expected session, '
           f'database, system', gcv.loc, sample=got)

    # ---- R4 JSON symmetry ---------------------------------------------------
    ctx.floor('C19.R4', 8)
    tj = repo.func(f'{OPS}.to_json_obj')
    fj = repo.func(f'{OPS}.from_json')
    written = set()
    for d in ast.walk(tj.node):
        if isinstance(d, ast.Dict):
            for k in d.keys:
                if isinstance(k, ast.Constant):
                    written.add(k.value)
    read = set()
    for s in ast.walk(fj.node):
        if isinstance(s, ast.Subscript) and norm(s.value) == 'value' and \
                isinstance(s.slice, ast.Constant):
            read.add(s.slice.value)
    ctx.ob('C19.R4', 'to_json_obj/from_json:keys', read <= written and
           len(read) >= 3, f'from_json reads {sorted(read)}; to_json_obj '
           f'writes {sorted(written)}', fj.loc, sample=sorted(read))
    # value goes through the sibling converters; scope through the enum
    ok = "value_from_json_value(spec, setting, value['value'])" in norm(
        fj.node) and "qltypes.ConfigScope(value['scope'])" in norm(fj.node)
    ctx.ob('C19.R4', 'from_json:converters', ok,
           'from_json does not decode value/scope with the inverse of what '
           'to_json_obj applied', fj.loc, sample='value_from_json_value / '
                                                'ConfigScope(...)')
    ok = 'value_to_json_value(setting, value.value)' in norm(tj.node) and \
        "'scope': str(value.scope)" in norm(tj.node)
    ctx.ob('C19.R4', 'to_json_obj:converters', ok,
           'to_json_obj does not encode with value_to_json_value / '
           'str(scope)', tj.loc, sample='value_to_json_value / str(scope)')
    # Operation.from_json unpack order vs the SQL producer rows
    ofj = repo.find_method(opcls.qualname, 'from_json')
    un = [n for n in ast.walk(ofj.node) if isinstance(n, ast.Assign)
          and isinstance(n.targets[0], ast.Tuple)]
    order = [norm(e) for e in un[0].targets[0].elts] if un else []
    ctx.ob('C19.R4', 'Operation.from_json:unpack',
           order == ['op_str', 'scope_str', 'name', 'value'],
           f'unpack order {order}', ofj.loc, sample=order)
    mk = [c_ for c_ in ast.walk(ofj.node) if isinstance(c_, ast.Call)
          and call_name(c_) == 'Operation']
    kw = {k.arg: norm(k.value) for k in mk[0].keywords} if mk else {}
    ok = kw == {'opcode': 'OpCode(op_str)',
                'scope': 'qltypes.ConfigScope(scope_str)',
                'setting_name': 'name', 'value': 'value'}
    ctx.ob('C19.R4', 'Operation.from_json:fields', ok,
           f'Operation built as {kw}', ofj.loc, sample=kw)
    opvals = set()
    for k, v in opcode.assign_fields.items():
        if isinstance(v, ast.Constant):
            opvals.add(v.value)
    allowed = {'compile_ConfigSet': {'SET'},
               'compile_ConfigReset': {'RESET', 'REM', 'SET'},
               'compile_ConfigInsert': {'ADD', 'SET'}}
    pg = repo.module(PGCFG)
    rows = 0
    for fn in pg.functions.values():
        if fn.name not in allowed:
            continue
        ctx.saw(fn)
        local_consts = {}
        for n in walk_no_nested(fn.node):
            if isinstance(n, ast.Assign) and isinstance(
                    n.targets[0], ast.Name):
                vals = {x.value for x in ast.walk(n.value)
                        if isinstance(x, ast.Constant)
                        and isinstance(x.value, str)}
                local_consts[n.targets[0].id] = vals
        # IR parameter name (op / ir_set.expr)
        for lst in ast.walk(fn.node):
            if not isinstance(lst, ast.List) or len(lst.elts) < 3:
                continue
            e = lst.elts
            if not all(isinstance(x, ast.Call) and norm(x.func) ==
                       'pgast.StringConstant' for x in e[:3]):
                continue
            v0 = kwarg(e[0], 'val')
            if isinstance(v0, ast.Constant):
                cmds = {v0.value}
            elif isinstance(v0, ast.Name):
                cmds = local_consts.get(v0.id, {'?'})
            else:
                continue
            if not (cmds & (opvals | {'?'})) and not (cmds <= opvals):
                continue     # not an operation row (e.g. backend setting)
            rows += 1
            v1, v2 = norm(kwarg(e[1], 'val')), norm(kwarg(e[2], 'val'))
            ok = cmds <= opvals and cmds <= allowed[fn.name] and \
                v1.startswith('str(') and v1.endswith('.scope)') and \
                v2.endswith('.name') and v1[4:-7] == v2[:-5]
            ctx.ob('C19.R4', f'{fn.name}:row@{sorted(cmds)}#{rows}', ok,
                   f'operation row [{sorted(cmds)}, {v1}, {v2}] does not '
                   f'match Operation.from_json (opcode value valid for '
                   f'{fn.name}, str(<ir>.scope), <ir>.name)',
                   f'{fn.module.rel()}:{lst.lineno}',
                   sample=[sorted(cmds), v1, v2])
    if rows < 5:
        raise AnalysisError(f'C19.R4: only {rows} operation rows found in '
                            f'{PGCFG}')
    # (iii) value_to_json_value / value_from_json_value case split
    vt = repo.func(f'{OPS}.value_to_json_value')
    vf = repo.func(f'{OPS}.value_from_json_value')

    def split(fn):
        top = [s for s in fn.node.body if isinstance(s, ast.If)]
        if not top or norm(top[0].test) != 'setting.set_of':
            return None
        def inner(body):
            i = [s for s in body if isinstance(s, ast.If)]
            return bool(i) and norm(i[0].test) == \
                'isinstance(setting.type, types.ConfigTypeSpec)'
        return inner(top[0].body), inner(top[0].orelse)
    sa, sb = split(vt), split(vf)
    ctx.ob('C19.R4', 'value_to/from_json_value:case-split',
           sa == sb == (True, True),
           f'case split differs: to={sa} from={sb}', vt.loc,
           sample='set_of x ConfigTypeSpec in both')

    # ---- R5 scalar sibling coverage ---------------------------------------------
    ctx.floor('C19.R5', 6)
    scal = f'{STA}.ScalarType'
    leaves = [q for q in repo.subclasses(scal, strict=True)
              if q.startswith(STA)]
    direct = [q for q in leaves if scal in repo.cls(q).bases or any(
        b == scal for b in repo.mro(q)[1:2])]
    # direct children of ScalarType are the kinds to handle
    kinds = [q for q in leaves if repo.mro(q)[1] == scal or (
        scal in repo.cls(q).bases)]
    if len(kinds) < 3:
        raise AnalysisError('C19.R5: ScalarType kinds not found')
    for fn_name in ('coerce_single_value', 'value_from_json_value',
                    'spec_to_json'):
        fn = repo.func(f'{OPS}.{fn_name}')
        ctx.saw(fn)
        handled = set()
        for t in ast.walk(fn.node):
            if isinstance(t, ast.If):
                handled.update(_isinst_classes(repo, opsmod, t.test))
        for k in kinds:
            ok = any(h in repo.mro(k) and h != scal for h in handled) or \
                (fn_name != 'spec_to_json' and False)
            ctx.ob('C19.R5', f'{fn_name}:kind={k.split(".")[-1]}', ok,
                   f'{fn_name} has no case for config scalar kind '
                   f'{k.split(".")[-1]} (value_to_json_value treats all '
                   f'ScalarType uniformly via to_json)', fn.loc,
                   sample='handled')
    # the fifth sibling: the renderer of CONFIGURE statements (what DESCRIBE
    # and dumps show) turns every stored value into an EdgeQL constant
    cap = repo.func('edb.schema.utils.const_ast_from_python')
    ctx.saw(cap)
    handled = set()
    for t in ast.walk(cap.node):
        if isinstance(t, ast.If):
            handled.update(_isinst_classes(repo, cap.module, t.test))
    for k in kinds:
        ok = any(h in repo.mro(k) and h != scal for h in handled)
        ctx.ob('C19.R5', f'const_ast_from_python:kind={k.split(".")[-1]}', ok,
               f'const_ast_from_python has no case for config scalar kind '
               f'{k.split(".")[-1]}: to_edgeql() of a stored setting of that '
               f'type raises, so DESCRIBE CONFIG / a dump cannot render the '
               f'configuration at all', cap.loc, sample='handled')
    # every concrete leaf resolves to one of the handled kinds
    for q in leaves:
        ok = any(k in repo.mro(q) for k in kinds)
        ctx.ob('C19.R5', f'leaf={q.split(".")[-1]}', ok,
               f'{q} is not under a handled kind', repo.cls(q).loc,
               sample='under ' + ','.join(k.split('.')[-1] for k in kinds
                                          if k in repo.mro(q)),
               nontrivial=False)
    # each kind overrides to_json (writer) — else NotImplementedError
    for k in kinds:
        ok = repo.find_method(k, 'to_json') is not None and \
            repo.find_method(k, 'to_json').cls.qualname != scal
        ctx.ob('C19.R5', f'{k.split(".")[-1]}.to_json', ok,
               f'{k} does not implement to_json (value_to_json_value would '
               f'raise)', repo.cls(k).loc, sample='overrides to_json')

    # ---- R7 statement -> operation ------------------------------------------------
    ctx.floor('C19.R7', 5)
    cc = 'edb.ir.ast.ConfigCommand'
    concrete = [q for q in repo.subclasses(cc, strict=True)
                if not repo.subclasses(q, strict=True)]
    se = repo.module(STAEVAL)
    handlers = {}
    for fn in se.functions.values():
        for d in fn.node.decorator_list:
            if isinstance(d, ast.Call) and norm(d.func) == \
                    'evaluate_to_config_op.register' and d.args:
                handlers[repo.resolve_expr(se, d.args[0])] = fn
    want_op = {'ConfigSet': 'CONFIG_SET', 'ConfigReset': 'CONFIG_RESET',
               'ConfigInsert': 'CONFIG_ADD'}
    for q in concrete:
        nm = q.split('.')[-1]
        fn = handlers.get(q)
        if fn is None:
            ctx.fail('C19.R7', f'evaluate_to_config_op:{nm}',
                     f'no static-evaluation handler for {nm}', se.rel())
            continue
        ctx.saw(fn)
        ops = [c_ for c_ in ast.walk(fn.node) if isinstance(c_, ast.Call)
               and norm(c_.func) == 'config.Operation']
        ok = len(ops) == 1
        if ok:
            kw = {k.arg: norm(k.value) for k in ops[0].keywords}
            irp = fn.params()[0]
            ok = kw.get('opcode') == f'config.OpCode.{want_op.get(nm)}' and \
                kw.get('scope') == f'{irp}.scope' and \
                kw.get('setting_name') == f'{irp}.name'
        ctx.ob('C19.R7', f'evaluate_to_config_op:{nm}', ok,
               f'{nm} is not evaluated to Operation(opcode={want_op.get(nm)},'
               f' scope=ir.scope, setting_name=ir.name)', fn.loc,
               sample=kw if ops else None)
    # unevaluable cases raise
    fn = handlers.get('edb.ir.ast.ConfigSet')
    if fn is not None:
        ok = any(isinstance(n, ast.If) and 'ConfigScope.GLOBAL' in norm(
            n.test) and any(isinstance(x, ast.Raise) for x in n.body)
            for n in ast.walk(fn.node))
        ctx.ob('C19.R7', 'evaluate_config_set:global-raises', ok,
               'SET GLOBAL is statically evaluated instead of rejected',
               fn.loc, sample='GLOBAL scope -> UnsupportedExpressionError')
    fn = handlers.get('edb.ir.ast.ConfigReset')
    if fn is not None:
        ok = any(isinstance(n, ast.If) and 'selector is not None' in norm(
            n.test) and any(isinstance(x, ast.Raise) for x in n.body)
            for n in ast.walk(fn.node))
        ctx.ob('C19.R7', 'evaluate_config_reset:filtered-raises', ok,
               'a filtered RESET is statically evaluated as a plain RESET',
               fn.loc, sample='selector -> UnsupportedExpressionError')


def _arm(g: CFG, nid: int) -> str:
    best = 'top'
    for t in g.nodes:
        if t.kind == 'test' and 'self.opcode is OpCode.' in norm(t.ast) \
                and ' or ' not in norm(t.ast) \
                and g.edge_dominates(t.id, 'T', nid):
            best = norm(t.ast).split('.')[-1]
    return best


def stale_reads(fn_node: ast.AST, var: str):
    """(attribute, local) pairs where `local = var.attr` is evaluated before
    a rebinding of `var` that can still be followed by a use of `local`."""
    g = CFG(fn_node)
    rebinds = [n.id for n in g.nodes if n.kind == 'stmt' and isinstance(
        n.ast, ast.Assign) and any(norm(t) == var for t in n.ast.targets)]
    out = []
    for n in g.nodes:
        if n.kind != 'stmt' or not isinstance(n.ast, ast.Assign):
            continue
        v = n.ast.value
        if not (isinstance(v, ast.Attribute) and norm(v.value) == var
                and isinstance(n.ast.targets[0], ast.Name)):
            continue
        local = n.ast.targets[0].id
        after = g.reachable([n.id])
        for r in rebinds:
            if r not in after:
                continue
            later = g.reachable([r])
            uses = [m for m in later if g.nodes[m].ast is not None and any(
                isinstance(x, ast.Name) and x.id == local
                and isinstance(x.ctx, ast.Load)
                for e in g.node_exprs(g.nodes[m]) for x in ast.walk(e))]
            if uses:
                out.append((v.attr, local))
    return out


def _r8(repo: Repo, ctx) -> None:
    from .. import shapes as SH
    ctx.floor('C19.R8', 4)
    OPS = 'edb.server.config.ops'
    # (a) every object set that can be stored went through the size limit:
    #     the test lives in the function both SET and INSERT share
    cu = repo.func(f'{OPS}._check_object_set_uniqueness')
    ctx.saw(cu)
    g = CFG(cu.node)
    lim = [t.id for t in g.nodes if t.kind == 'test'
           and 'MAX_CONFIG_SET_SIZE' in norm(t.ast)]
    rets = [n.id for n in g.nodes if n.kind == 'stmt'
            and isinstance(n.ast, ast.Return)]
    ok = bool(lim) and all(g.always_before(r, lim) for r in rets) and all(
        any(isinstance(g.nodes[x].ast, ast.Raise)
            for x in g.reachable([t], labels={'T', 'n'}, stop_at=rets)
            if g.nodes[x].ast is not None) for t in lim)
    users = sorted({f.qualname for f in repo._funcs_of(repo.module(OPS))
                    for c in ast.walk(f.node) if isinstance(c, ast.Call)
                    and call_name(c) == '_check_object_set_uniqueness'
                    and f is not cu})
    ctx.ob('C19.R8', '_check_object_set_uniqueness:size-limit', ok,
           f'the set-size limit is not enforced inside '
           f'_check_object_set_uniqueness, through which {users} build the '
           f'value they store: an INSERT can grow a set past the limit that '
           f'a SET of the same value would refuse, so the stored state '
           f'cannot be re-applied', cu.loc,
           sample=f'len(..) > MAX_CONFIG_SET_SIZE -> raise; users={users}')
    ctx.ob('C19.R8', '_check_object_set_uniqueness:users', len(users) >= 2,
           f'only {users} call the shared uniqueness / size check',
           cu.loc, sample=users, nontrivial=False)
    # (b) the field map validated against is the one of the resolved type
    CT = 'edb.server.config.types'
    fp = repo.func(f'{CT}.CompositeConfigType.from_pyvalue')
    ctx.saw(fp)
    st = stale_reads(fp.node, 'tspec')
    ctx.ob('C19.R8', 'CompositeConfigType.from_pyvalue:tspec-after-_tname',
           not st,
           f'from_pyvalue reads tspec.{[a for a, _ in st]} before `_tname` '
           f'rebinds tspec to the concrete subtype and uses the result '
           f'afterwards: fields of the subtype are rejected as unknown '
           f'(INSERT of a polymorphic config object, from_json of a '
           f'persisted one)', fp.loc,
           sample='tspec resolved from _tname before tspec.fields is read')
    rb = [a for a in ast.walk(fp.node) if isinstance(a, ast.Assign)
          and norm(a.targets[0]) == 'tspec' and 'get_type_by_name' in
          norm(a.value)]
    ctx.ob('C19.R8', 'CompositeConfigType.from_pyvalue:resolves-_tname',
           len(rb) == 1, 'the concrete type named by _tname is not resolved',
           fp.loc, sample='tspec = spec.get_type_by_name(tname)')
    # (c) rendering a composite value to EdgeQL keeps every field that is
    #     not secret / protected, whatever its value
    ca = repo.func('edb.schema.utils.const_ast_from_python')
    ctx.saw(ca)
    arm = [a for names, a in SH.isinstance_arms(ca.node, ca.params()[0])
           if 'CompositeType' in names]
    if not arm:
        raise AnalysisError('C19.R8: CompositeType arm of '
                            'const_ast_from_python not found')
    comps = [c for b in arm[0].body for c in ast.walk(b)
             if isinstance(c, ast.ListComp)]
    bad = []
    for c in comps:
        for gen_ in c.generators:
            for cond in gen_.ifs:
                for x in ast.walk(cond):
                    if isinstance(x, ast.Call) and norm(x.func) == 'getattr':
                        par = _parent_expr(cond, x)
                        if not (isinstance(par, ast.Compare) and isinstance(
                                par.ops[0], (ast.Is, ast.IsNot))):
                            bad.append(norm(cond)[:50])
    ctx.ob('C19.R8', 'const_ast_from_python:composite-fields-kept',
           bool(comps) and not bad,
           f'the CONFIGURE ... INSERT rendering of a config object drops '
           f'fields by the truth of their value ({bad}): 0, false and the '
           f'empty string are valid settings and would be replaced by the '
           f'defaults when the statement is loaded back', ca.loc,
           sample='filtered by secret / protected only')


def _parent_expr(root: ast.AST, node: ast.AST):
    for p in ast.walk(root):
        for c in ast.iter_child_nodes(p):
            if c is node:
                return p
    return root


def _r9(repo: Repo, ctx) -> None:
    """(a) a multi-valued setting evaluated statically becomes the empty
           set only when the expression is empty (None), never for a falsy
           element;
       (b) a chained spec routes a type-name lookup by the type tables of
           its parts, not by their setting-name membership;
       (c) the sub-second part of an ISO duration takes its sign from the
           text (a sign group), not from the numeric value of the seconds
           (-0 has none)."""
    ctx.floor('C19.R9', 3)
    # (a)
    ev = repo.func(f'{STAEVAL}.evaluate_config_set')
    ctx.saw(ev)
    empt = [a for a in ast.walk(ev.node) if isinstance(a, ast.Assign)
            and isinstance(a.value, (ast.List, ast.Tuple, ast.Set))
            and not a.value.elts or (isinstance(a, ast.Assign) and norm(
                a.value) in ('[]', 'set()', 'frozenset()', '()'))]
    if not empt:
        raise AnalysisError('C19.R9: empty-set normalisation of '
                            'evaluate_config_set not found')
    for a in empt:
        var = norm(a.targets[0])
        guard = None
        for n in ast.walk(ev.node):
            if isinstance(n, ast.If) and a in n.body:
                guard = n.test
        ok = guard is not None and isinstance(guard, ast.Compare) and \
            isinstance(guard.ops[0], ast.Is) and norm(guard.left) == var \
            and norm(guard.comparators[0]) == 'None'
        ctx.ob('C19.R9', 'evaluate_config_set:empty-only-for-None', ok,
               f'evaluate_config_set replaces `{var}` by the empty set '
               f'under `{norm(guard) if guard is not None else "no test"}`: '
               f"a single falsy element ('' / 0 / false) of a multi-valued "
               f'setting is stored as the empty set', ev.loc,
               sample=f'if {var} is None: {var} = []')
    # (b)
    SP = 'edb.server.config.spec'
    flat_c = repo.find_method(f'{SP}.FlatSpec', '__contains__')
    flat_t = repo.find_method(f'{SP}.FlatSpec', 'get_type_by_name')
    ch_t = repo.find_method(f'{SP}.ChainedSpec', 'get_type_by_name')
    if None in (flat_c, flat_t, ch_t):
        raise AnalysisError('C19.R9: FlatSpec/ChainedSpec lookups not found')
    ctx.saw(ch_t)

    def tables(f):
        return {x.attr for x in ast.walk(f.node) if isinstance(
            x, ast.Attribute) and norm(x.value) == 'self'}
    differ = tables(flat_c) != tables(flat_t)
    member = [norm(c) for c in ast.walk(ch_t.node) if isinstance(
        c, ast.Compare) and isinstance(c.ops[0], (ast.In, ast.NotIn))
        and norm(c.comparators[0]).startswith('self._')]
    deleg = [c for c in ast.walk(ch_t.node) if isinstance(c, ast.Call)
             and isinstance(c.func, ast.Attribute) and c.func.attr ==
             'get_type_by_name']
    ctx.ob('C19.R9', 'ChainedSpec.get_type_by_name:routes-by-type-table',
           len(deleg) >= 2 and not (member and differ),
           f'ChainedSpec.get_type_by_name routes by {member}: membership '
           f'of a spec is over setting names ({sorted(tables(flat_c))}), '
           f'type names live in {sorted(tables(flat_t))}, so an object type '
           f'defined by an extension is looked up in the base spec and '
           f'INSERT / from_json of its objects fails', ch_t.loc,
           sample='try top.get_type_by_name except KeyError: base')
    # (c)
    pi = repo.find_method(f'{STA}.Duration', '_parse_iso8601')
    if pi is None:
        raise AnalysisError('C19.R9: Duration._parse_iso8601 not found')
    ctx.saw(pi)
    frac = set()
    for a in ast.walk(pi.node):
        if isinstance(a, ast.Assign) and any(
                isinstance(x, ast.Constant) and x.value == 'microseconds'
                for x in ast.walk(a.value)):
            frac.add(norm(a.targets[0]))
    changed = True
    while changed:
        changed = False
        for a in ast.walk(pi.node):
            if isinstance(a, ast.Assign) and norm(a.targets[0]) not in frac \
                    and any(isinstance(x, ast.Name) and x.id in frac
                            for x in ast.walk(a.value)):
                frac.add(norm(a.targets[0]))
                changed = True
    terms = [a for a in ast.walk(pi.node) if isinstance(a, ast.AugAssign)
             and (any(isinstance(x, ast.Name) and x.id in frac
                      for x in ast.walk(a.value))
                  or any(isinstance(x, ast.Constant) and x.value ==
                         'microseconds' for x in ast.walk(a.value)))]
    if not terms:
        raise AnalysisError('C19.R9: sub-second term of _parse_iso8601 '
                            'not found')
    for t in terms:
        tests = [x.test for x in ast.walk(t.value) if isinstance(
            x, ast.IfExp)]
        for nm in {x.id for x in ast.walk(t.value) if isinstance(x, ast.Name)
                   and x.id not in frac}:
            for a in ast.walk(pi.node):
                if isinstance(a, ast.Assign) and norm(a.targets[0]) == nm:
                    tests += [x.test for x in ast.walk(a.value)
                              if isinstance(x, ast.IfExp)]
                    tests += [x for x in ast.walk(a.value)
                              if isinstance(x, ast.Compare)]
        textual = [x for x in tests for c in ast.walk(x) if isinstance(
            c, ast.Compare) and any(isinstance(k, ast.Constant) and
                                    isinstance(k.value, str)
                                    for k in c.comparators)]
        numeric = [norm(x) for x in tests for c in ast.walk(x) if isinstance(
            c, ast.Compare) and any(isinstance(k, ast.Constant) and
                                    isinstance(k.value, (int, float))
                                    and not isinstance(k.value, bool)
                                    for k in c.comparators)]
        ctx.ob('C19.R9', 'Duration._parse_iso8601:fraction-sign-from-text',
               bool(textual) and not numeric,
               f'the sub-second part of an ISO 8601 duration takes its sign '
               f'from {numeric or "nothing"}: the integer seconds of '
               f'`PT-0.5S` are -0 == 0, so the fraction loses its sign and '
               f'the stored -0.5s is loaded back as +0.5s', pi.loc,
               sample='sign group compared with \'-\'')


def _r10(repo: Repo, ctx) -> None:
    """C19.R10 what is stored comes back.

    (a) from_json installs every entry of the JSON document whose setting
        exists in the spec: inside the loop the only `continue` is the one
        under `setting is None`.  An entry dropped for any value-dependent
        reason (equal to the default, falsy ...) changes which scope defines
        the setting, so lookup() falls through to a less specific scope.
    (b) config objects compare their type specs by value.  Specs are
        re-derived from the schema (value-equal, not identical) between an
        INSERT and the filtered RESET that removes the object; with an
        identity test `exist - {value}` removes nothing."""
    ctx.floor('C19.R10', 2)
    fj = repo.func(f'{OPS}.from_json')
    ctx.saw(fj)
    loops = [l for l in ast.walk(fj.node) if isinstance(l, ast.For)
             and 'items()' in norm(l.iter)]
    if len(loops) != 1:
        raise AnalysisError('C19.R10: entry loop of from_json not found')
    lp = loops[0]
    tgt = {x.id for x in ast.walk(lp.target) if isinstance(x, ast.Name)}
    setting_var = None
    for a in lp.body:
        if isinstance(a, ast.Assign) and isinstance(a.value, ast.Call) and \
                norm(a.value.func).endswith('spec.get'):
            setting_var = norm(a.targets[0])
    if setting_var is None:
        raise AnalysisError('C19.R10: spec lookup in from_json not found')
    bad = []

    def scan(stmts, conds):
        for st in stmts:
            if isinstance(st, (ast.Continue, ast.Break)):
                if conds != [f'{setting_var} is None']:
                    bad.append(' and '.join(conds) or 'unconditionally')
            elif isinstance(st, ast.If):
                scan(st.body, conds + [norm(st.test)])
                scan(st.orelse, conds + [f'not ({norm(st.test)})'])
            elif isinstance(st, (ast.For, ast.While, ast.With, ast.Try)):
                for fld in ('body', 'orelse', 'finalbody'):
                    scan(getattr(st, fld, []) or [], conds)
    scan(lp.body, [])
    stores = [a for a in ast.walk(lp) if isinstance(a, ast.Assign) and
              isinstance(a.targets[0], ast.Subscript) and
              norm(a.targets[0].slice) in tgt]
    ctx.ob('C19.R10', 'from_json:every-known-entry-installed',
           not bad and len(stores) == 1 and stores[0] in lp.body,
           f'from_json skips entries {bad or "(store is conditional)"}: a '
           f'setting explicitly pinned at a more specific scope is gone '
           f'after the JSON round trip and lookup() answers from a less '
           f'specific scope', fj.loc,
           sample='only `setting is None` skips an entry')
    # (b)
    cct = repo.cls(f'{CFGMOD}.types.CompositeConfigType')
    eq = cct.methods.get('__eq__')
    if eq is None:
        raise AnalysisError('C19.R10: CompositeConfigType.__eq__ not found')
    ctx.saw(eq)
    ident = [norm(c) for c in ast.walk(eq.node) if isinstance(c, ast.Compare)
             and any(isinstance(o, (ast.Is, ast.IsNot)) for o in c.ops)
             and not any(isinstance(x, ast.Constant) and x.value is None
                         for x in [c.left] + c.comparators)]
    ctx.ob('C19.R10', 'CompositeConfigType.__eq__:by-value', not ident,
           f'config objects are compared through an identity test '
           f'({ident}): type specs are re-derived from the schema on every '
           f'load (value-equal, different objects), so the object a '
           f'filtered RESET builds never equals the stored one and nothing '
           f'is removed', eq.loc, sample='self._tspec != rhs._tspec')


def run(repo: Repo, ctx) -> None:
    _run_main(repo, ctx)
    _r8(repo, ctx)
    _r9(repo, ctx)
    _r10(repo, ctx)
    _r11(repo, ctx)
    _r12(repo, ctx)
    _r13(repo, ctx)
    _r14(repo, ctx)



def _r11(repo: Repo, ctx) -> None:
    """C19.R11 every unit cfg::memory prints is one it parses.  The text
    written by `to_str` / `to_backend_str` goes into the stored JSON and the
    CONFIGURE script and comes back through `ConfigMemory(text)`: a unit
    suffix the printer can emit that the parser's pattern (or its unit
    arms) does not list makes a stored value unloadable."""
    import re as _re
    ctx.floor('C19.R11', 4)
    cls = repo.cls('edb.ir.statypes.ConfigMemory')
    pat = cls.assign_fields.get('_parser')
    txt = None
    if isinstance(pat, ast.Call) and pat.args and isinstance(
            pat.args[0], ast.Constant):
        txt = pat.args[0].value
    mm = _re.search(r'\(\?P<unit>([^)]*)\)', txt or '')
    if not mm:
        raise AnalysisError('C19.R11: unit group of ConfigMemory._parser '
                            'not found')
    accepted = {u.strip() for u in mm.group(1).split('|')}
    init = cls.methods.get('__init__')
    arms = {x.value for x in ast.walk(init.node)
            if isinstance(x, ast.Constant) and isinstance(x.value, str)
            and x.value in accepted} if init else set()
    for u in sorted(accepted):
        ctx.ob('C19.R11', f'ConfigMemory.__init__:unit={u}', u in arms,
               f'the pattern accepts the unit {u} but __init__ has no arm '
               f'for it', init.loc if init else cls.loc, sample='arm present')
    for name in ('to_str', 'to_backend_str'):
        f = cls.methods.get(name)
        if f is None:
            raise AnalysisError(f'C19.R11: ConfigMemory.{name} not found')
        ctx.saw(f)
        from ..shapes import reach
        emitted = set()
        for node in reach(repo, f):
            for js in ast.walk(node):
                if isinstance(js, ast.JoinedStr) and js.values and isinstance(
                        js.values[-1], ast.Constant):
                    emitted.add(str(js.values[-1].value))
                elif isinstance(js, ast.Constant) and isinstance(
                        js.value, str) and _re.fullmatch(
                            r'[A-Za-z]{1,4}B|B|[kKMGTPE]i?B', js.value):
                    emitted.add(js.value)
        if not emitted:
            raise AnalysisError(f'C19.R11: no unit suffix found in {name}')
        if name == 'to_str':
            for u in sorted(emitted):
                ctx.ob('C19.R11', f'ConfigMemory.to_str:unit={u}',
                       u in accepted,
                       f'to_str can print the unit `{u}`, which the '
                       f'parser pattern ({sorted(accepted)}) rejects: a '
                       f'value stored with it cannot be loaded back from '
                       f'JSON or replayed from the CONFIGURE script',
                       f.loc, sample=f'{u} accepted')



def _r12(repo: Repo, ctx) -> None:
    """C19.R12 what is recorded next to a stored value -- its `source` and
    `scope` -- describes the operation that stored it, never the entry it
    replaces.  Persisting filters on it (`_save_system_overrides` keeps
    `v.source == 'system override'`); a CONFIGURE INSTANCE SET that inherits
    the source of the config-file value it overrides is dropped from the
    stored overrides and the value is gone after a reload."""
    from ..shapes import derives_from
    ctx.floor('C19.R12', 2)
    sv = repo.func(f'{OPS}.set_value')
    ctx.saw(sv)
    params = sv.params()
    if not params:
        raise AnalysisError('C19.R12: set_value has no parameters')
    store = params[0]
    ctor = [c for c in ast.walk(sv.node) if isinstance(c, ast.Call)
            and (call_name(c) or '').split('.')[-1] == 'SettingValue']
    if len(ctor) != 1:
        raise AnalysisError(f'C19.R12: set_value builds {len(ctor)} '
                            f'SettingValue records')
    for field in ('source', 'scope'):
        v = kwarg(ctor[0], field)
        if v is None:
            raise AnalysisError(f'C19.R12: SettingValue(.., {field}=..) '
                                f'not found in set_value')
        names = sorted({x.id for x in ast.walk(v) if isinstance(x, ast.Name)})
        direct = any(n == store for n in names)
        tainted = direct or derives_from(sv.node, names, store)
        ctx.ob('C19.R12', f'set_value:{field}-describes-the-operation',
               not tainted,
               f'set_value records `{field}={norm(v)}`, which is derived '
               f'from the map being updated (`{store}`): a value set at one '
               f'scope / by one source is filed under the source of the '
               f'entry it replaces, and the serialisers that select by '
               f'{field} (stored system overrides, DESCRIBE) leave it out',
               f'{sv.module.rel()}:{ctor[0].lineno}',
               sample=f'{field}={norm(v)}')



def _r13(repo: Repo, ctx) -> None:
    """C19.R13 the compilation-config blob folds its scopes so that a later
    (more specific) argument overrides an earlier one.  The callers pass
    (instance, database, session); the blob is what the compiler decodes and
    what the compile cache is keyed by.  Two folds are understood: an
    in-order loop of `.update(..)` into one dict (last wins) and a
    `ChainMap`, whose *first* mapping wins and therefore has to be built
    over the reversed sequence."""
    ctx.floor('C19.R13', 1)
    cls = repo.cls('edb.server.compiler.sertypes.CompilationConfigSerializer')
    f = repo.find_method(cls.qualname, 'encode_configs')
    if f is None:
        raise AnalysisError('C19.R13: encode_configs not found')
    ctx.saw(f)
    va = f.node.args.vararg.arg if f.node.args.vararg else None
    if va is None:
        raise AnalysisError('C19.R13: encode_configs takes no *configs')
    verdict = None
    why = ''
    for n in ast.walk(f.node):
        if isinstance(n, ast.For) and any(
                isinstance(x, ast.Name) and x.id == va
                for x in ast.walk(n.iter)):
            upd = [c for st in n.body for c in ast.walk(st)
                   if isinstance(c, ast.Call)
                   and isinstance(c.func, ast.Attribute)
                   and c.func.attr == 'update']
            sets = [c for st in n.body for c in ast.walk(st)
                    if isinstance(c, ast.Call)
                    and isinstance(c.func, ast.Attribute)
                    and c.func.attr == 'setdefault']
            rev = any(isinstance(c, ast.Call) and norm(c.func) == 'reversed'
                      for c in ast.walk(n.iter)) or \
                '[::-1]' in norm(n.iter).replace(' ', '')
            if upd and not sets:
                verdict, why = (not rev), f'update loop over {norm(n.iter)}'
            elif sets and not upd:
                verdict, why = rev, f'setdefault loop over {norm(n.iter)}'
        if isinstance(n, ast.Call) and (call_name(n) or '').split(
                '.')[-1] == 'ChainMap':
            rev = any(isinstance(c, ast.Call) and norm(c.func) == 'reversed'
                      for a in n.args for c in ast.walk(a)) or any(
                '[::-1]' in norm(a).replace(' ', '') for a in n.args)
            verdict, why = rev, f'{norm(n)[:70]} (first mapping wins)'
    if verdict is None:
        raise AnalysisError('C19.R13: the fold of the scopes in '
                            'encode_configs is neither an update loop nor a '
                            'ChainMap: cannot decide which scope wins')
    ctx.ob('C19.R13', 'encode_configs:later-scope-wins', verdict,
           f'encode_configs folds its arguments with {why}: the value of '
           f'the earlier, less specific scope (instance before database '
           f'before session) ends up in the blob, so the compiler sees the '
           f'instance value of a setting the session overrides and two '
           f'sessions that differ only in that override share a cache key',
           f.loc, sample=why)



def _r14(repo: Repo, ctx) -> None:
    """C19.R14 building a config object from an operation's payload does not
    take anything out of the payload.  `from_pyvalue` copies the top-level
    dict only; the nested dicts it walks are the ones that live inside
    `Operation.value`, and the same operation is applied more than once
    (compile-time state and run-time state, a cached CONFIGURE unit executed
    again, `coerce_value()` followed by `apply()`).  A `pop` / `del` on a
    nested value makes the second application see a different payload (the
    `_tname` of a nested object gone: the declared base type is built
    instead of the subtype)."""
    ctx.floor('C19.R14', 1)
    cls = repo.cls('edb.server.config.types.CompositeConfigType')
    f = repo.find_method(cls.qualname, 'from_pyvalue')
    if f is None:
        raise AnalysisError('C19.R14: CompositeConfigType.from_pyvalue not '
                            'found')
    ctx.saw(f)
    params = f.params()
    loops = [l for l in ast.walk(f.node) if isinstance(l, ast.For)
             and isinstance(l.iter, ast.Call)
             and isinstance(l.iter.func, ast.Attribute)
             and l.iter.func.attr in ('items', 'values')
             and isinstance(l.iter.func.value, ast.Name)
             and l.iter.func.value.id in params]
    if not loops:
        raise AnalysisError('C19.R14: the loop over the payload\'s fields '
                            'was not found in from_pyvalue')
    for l in loops:
        tg = l.target
        var = tg.elts[-1].id if isinstance(tg, ast.Tuple) and isinstance(
            tg.elts[-1], ast.Name) else (tg.id if isinstance(tg, ast.Name)
                                         else None)
        if var is None:
            raise AnalysisError('C19.R14: loop target not recognised')
        copies = [st.lineno for st in ast.walk(l)
                  if isinstance(st, ast.Assign) and any(
                      isinstance(t, ast.Name) and t.id == var
                      for t in st.targets) and (
                      (isinstance(st.value, ast.Call) and (
                          norm(st.value.func) in ('dict', 'copy.copy',
                                                  'copy.deepcopy')
                          or (isinstance(st.value.func, ast.Attribute)
                              and st.value.func.attr == 'copy')))
                      or isinstance(st.value, ast.Dict))]
        destr = []
        for x in ast.walk(l):
            if isinstance(x, ast.Call) and isinstance(
                    x.func, ast.Attribute) and x.func.attr in (
                    'pop', 'popitem', 'clear') and isinstance(
                    x.func.value, ast.Name) and x.func.value.id == var:
                destr.append(x)
            if isinstance(x, ast.Delete) and any(
                    isinstance(t, ast.Subscript) and isinstance(
                        t.value, ast.Name) and t.value.id == var
                    for t in x.targets):
                destr.append(x)
        bad = [d for d in destr
               if not any(c < d.lineno for c in copies)]
        ctx.ob('C19.R14', f'from_pyvalue:payload-not-consumed@{var}', not bad,
               f'from_pyvalue removes something from a nested value of its '
               f'payload (`{norm(bad[0])[:60] if bad else ""}`): the dict '
               f'belongs to the Operation being applied, and the next '
               f'application of the same operation builds a different '
               f'object from it', f'{f.module.rel()}:'
               f'{bad[0].lineno if bad else l.lineno}',
               sample=f'no pop/del on `{var}` without copying it first')
