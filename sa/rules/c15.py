"""C15 — connection pool never oversubscribes or double-lends.

Static clauses (DESIGN §3/C15):
  R1 ledger balance of D = cap-(live+pend+closing) on every path, including
     exceptional ones, closed over spawned tasks (sa/ledger.py)
  R2 every new-connection site is capacity-guarded or a listed compensation
  R3 single-writer tables for the ledger fields
  R4 lend typestate: stack enters/leaves only at the owner sites, in_use set
     only in acquire, removed-from-conns connections are never idle-stacked
  R5 database affinity of acquire / connect
"""
from __future__ import annotations

import ast
from typing import Dict, List, Optional, Set, Tuple

from ..cfg import CFG
from ..ledger import POOL_MOD, PoolModel
from ..model import (AnalysisError, FuncInfo, Repo, call_name, dotted, kwarg,
                     norm,
                     walk_no_nested, module_attr_writes)

SCOPE_NOTE = ('scope: classes Block, BasePool, Pool of '
              'edb/server/connpool/pool.py; _NaivePool (test-only, documented '
              'as flawed) and pool2.py (Rust-backed, opt-in) are outside')


def short(f: FuncInfo) -> str:
    return f.qualname[len(POOL_MOD) + 1:]


def ledger_rule(repo: Repo, ctx, rule: str, pm: Optional[PoolModel] = None
                ) -> PoolModel:
    """Shared by C15.R1 and C16.R4."""
    pm = pm or PoolModel(repo)
    overrides: Dict[str, Tuple[Set[int], Set[int]]] = {}
    reported: Set[str] = set()
    for _ in range(8):
        pm.summary.clear()
        pm.unbounded.clear()
        _compute_with(pm, overrides)
        div = []
        for f in pm.funcs:
            n, e = pm.summary[f.qualname]
            if f.qualname in overrides:
                continue
            if len(n | e) > 1 or f.qualname in pm.unbounded:
                div.append(f)
        if not div:
            break
        divq = {f.qualname for f in div}
        roots = [f for f in div if not (_callees(pm, f) & (divq - {f.qualname}))]
        if not roots:
            roots = div
        for f in roots:
            n, e = pm.summary[f.qualname]
            paths = {}
            for v in sorted(n):
                paths[f'normal D={v:+d}'] = pm.path_to(f, 'normal', v)
            for v in sorted(e):
                paths[f'raise D={v:+d}'] = pm.path_to(f, 'exc', v)
            msg = (f'ledger diverges: exits leave D=cap-(live+pend+closing) '
                   f'at normal={sorted(n)} exceptional={sorted(e)}'
                   + (f'; {pm.unbounded[f.qualname]}'
                      if f.qualname in pm.unbounded else ''))
            ctx.ob(rule, f'{short(f)}:ledger', False, msg, f.loc,
                   detail={'paths': paths})
            reported.add(f.qualname)
            canon = min(n, key=abs) if n else (min(e, key=abs) if e else 0)
            overrides[f.qualname] = ({canon}, set())
    else:
        raise AnalysisError('ledger: divergence did not settle')
    # obligations for every function that touches the ledger
    for f in pm.funcs:
        ctx.saw(f)
        if f.qualname in reported:
            continue
        n, e = pm.summary[f.qualname]
        touches = _touches(pm, f)
        if not touches:
            continue
        ctx.ob(rule, f'{short(f)}:ledger', True, loc=f.loc,
               sample={'normal': sorted(n), 'exceptional': sorted(e),
                       'effects': touches[:6]})
    # entry points must be neutral
    for f in pm.entries():
        n, e = pm.summary[f.qualname]
        ok = (n | e) <= {0}
        if f.qualname in reported:
            continue
        paths = {}
        if not ok:
            for v in sorted(n - {0}):
                paths[f'normal D={v:+d}'] = pm.path_to(f, 'normal', v)
            for v in sorted(e - {0}):
                paths[f'raise D={v:+d}'] = pm.path_to(f, 'exc', v)
        ctx.ob(rule, f'{short(f)}:entry-neutral', ok,
               f'entry point leaves D != 0: normal={sorted(n)} '
               f'exceptional={sorted(e)}', f.loc,
               sample={'normal': sorted(n), 'exceptional': sorted(e)},
               detail={'paths': paths}, nontrivial=bool(_touches(pm, f)))
    return pm


def _compute_with(pm: PoolModel, overrides) -> None:
    for f in pm.funcs:
        pm.summary[f.qualname] = overrides.get(f.qualname, (set(), set()))
    for _round in range(14):
        changed = False
        pm.cfgs.clear()
        pm.atoms_cache.clear()
        for f in pm.funcs:
            n, e, info = pm.analyse(f)
            pm.witness[f.qualname] = info
            if info['over'] is not None:
                nid = info['over'][0]
                pm.unbounded[f.qualname] = (
                    f'D drifts without bound at '
                    f'L{info["g"].nodes[nid].lineno}')
            if f.qualname in overrides:
                continue
            if (n, e) != pm.summary[f.qualname]:
                pm.summary[f.qualname] = (n, e)
                changed = True
        if not changed:
            return
    raise AnalysisError('ledger summaries did not converge')


def _callees(pm: PoolModel, f: FuncInfo) -> Set[str]:
    out = set()
    for n in ast.walk(f.node):
        if isinstance(n, ast.Call):
            t = pm.resolve(f, n)
            if t is not None:
                out.add(t.qualname)
    return out


def _touches(pm: PoolModel, f: FuncInfo) -> List[str]:
    g = pm.cfg(f)
    out = []
    for n in g.nodes:
        for a in pm.atoms(f, g, n.id):
            k = a.kind.split(':')[-1]
            if k == 'eff' or (k == 'extawait' and a.delta):
                out.append(f'L{getattr(a.node, "lineno", 0)} {a.what}')
            elif k in ('call', 'await', 'co') and a.callee is not None:
                s = pm.summary.get(a.callee.qualname)
                if s and (s[0] | s[1]) - {0}:
                    out.append(f'L{getattr(a.node, "lineno", 0)} '
                               f'{k} {a.callee.name}')
    return out


# ----------------------------------------------------------------------

def _attr_writes(fn_node: ast.AST):
    """(attr, kind, node) for every write through an attribute in fn."""
    MUT = {'append', 'appendleft', 'pop', 'popleft', 'clear', 'remove',
           'extend', 'insert', 'update', 'setdefault', 'popitem', 'add',
           'discard', 'rotate'}
    for n in walk_no_nested(fn_node):
        if isinstance(n, ast.AugAssign) and isinstance(n.target,
                                                       ast.Attribute):
            yield n.target.attr, 'aug', n
        elif isinstance(n, (ast.Assign, ast.AnnAssign)):
            tg = n.targets if isinstance(n, ast.Assign) else [n.target]
            if isinstance(n, ast.AnnAssign) and n.value is None:
                continue
            for t in tg:
                for tt in (t.elts if isinstance(t, ast.Tuple) else [t]):
                    if isinstance(tt, ast.Attribute):
                        yield tt.attr, 'assign', n
                    elif isinstance(tt, ast.Subscript) and isinstance(
                            tt.value, ast.Attribute):
                        yield tt.value.attr, 'setitem', n
        elif isinstance(n, ast.Delete):
            for t in n.targets:
                if isinstance(t, ast.Subscript) and isinstance(
                        t.value, ast.Attribute):
                    yield t.value.attr, 'delitem', n
        elif isinstance(n, ast.Call) and isinstance(n.func, ast.Attribute) \
                and n.func.attr in MUT and isinstance(n.func.value,
                                                      ast.Attribute):
            yield n.func.value.attr, n.func.attr, n


# frozen single-writer table: field -> {function: reason}
WRITERS = {
    '_cur_capacity': {
        'BasePool.__init__': 'initialiser',
        'BasePool._schedule_new_conn': 'reserve a slot for a new connection',
        'BasePool._connect': 'give the slot back when connecting failed',
        'BasePool._disconnect': 'slot freed when a connection is closed',
        'BasePool._transfer': 're-reserve the slot freed by the disconnect',
    },
    'pending_conns': {
        'Block.__init__': 'initialiser',
        'BasePool._schedule_new_conn': 'connect started',
        'BasePool._schedule_transfer': 'slot promised to the target block',
        'BasePool._connect': 'connect finished (finally)',
    },
    'conns': {
        'Block.__init__': 'initialiser',
        'BasePool._connect': 'store the fresh connection',
        'BasePool._schedule_transfer': 'remove the connection being moved',
        'BasePool._discard_conn': 'remove the connection being closed',
        'Pool.prune_all_connections': 'failover: drop everything',
    },
    'conn_stack': {
        'Block.__init__': 'initialiser',
        'Block.try_steal': 'take the oldest idle connection',
        'Block.try_acquire': 'hand the newest idle connection to a waiter',
        'Block.release': 'the only place a connection becomes idle',
        'Pool.prune_all_connections': 'failover: drop everything',
    },
    'in_use': {
        'Pool.acquire': 'lend',
        'Pool.release': 'hand back',
    },
}


def _seg_clear(g: CFG, a: int, b: int) -> bool:
    """No suspension point on any path a -> b (a, b exclusive)."""
    between = g.reachable([a], stop_at=[b]) & _can_reach(g, b)
    between.discard(b)
    between.discard(a)
    return not any(g.is_suspension(g.nodes[x]) for x in between)


def _can_reach(g: CFG, b: int) -> Set[int]:
    seen = {b}
    stack = [b]
    while stack:
        x = stack.pop()
        for p, _ in g.nodes[x].pred:
            if p not in seen:
                seen.add(p)
                stack.append(p)
    return seen


def _call_sites(pm: PoolModel, name: str):
    """(caller FuncInfo, cfg, node id, call) for calls to pool fn `name`."""
    for f in pm.funcs:
        g = pm.cfg(f)
        for n in g.nodes:
            for c in g.node_calls(n):
                t = pm.resolve(f, c)
                if t is not None and t.name == name:
                    yield f, g, n.id, c


def _is_cap_test(e: ast.AST) -> bool:
    for c in ast.walk(e):
        if isinstance(c, ast.Compare) and len(c.ops) == 1:
            l, r = norm(c.left), norm(c.comparators[0])
            if isinstance(c.ops[0], ast.Lt) and l.endswith('._cur_capacity') \
                    and r.endswith('._max_capacity'):
                return True
            if isinstance(c.ops[0], ast.Gt) and r.endswith('._cur_capacity') \
                    and l.endswith('._max_capacity'):
                return True
    return False


def _positive_conjunct(test: ast.AST, pred) -> bool:
    """pred holds for a conjunct that is true whenever `test` is true."""
    if isinstance(test, ast.BoolOp) and isinstance(test.op, ast.And):
        return any(_positive_conjunct(v, pred) for v in test.values)
    if isinstance(test, ast.NamedExpr):
        return _positive_conjunct(test.value, pred)
    return pred(test)


def run(repo: Repo, ctx) -> None:
    ctx.explanation = (
        'Decides for edb/server/connpool/pool.py (Block, BasePool, Pool): '
        'R1 the counting ledger D=cap-(live+pend+closing) returns to 0 on '
        'every path of every entry point, closed over spawned tasks and '
        'including exceptional exits of awaits; R2 every call that opens a '
        'connection is dominated by a capacity test in the same atomic '
        'segment or is one of two reasoned compensations; R3 the ledger '
        'fields are written only by the frozen owner functions; R4 lend '
        'typestate (stack entry/exit sites, in_use set only when lending, '
        'connections removed from conns are never on the idle stack); R5 '
        'acquire/connect use the block of the requested database. Does NOT '
        'decide quota arithmetic or timing. ' + SCOPE_NOTE)
    ctx.not_decided = ['quota arithmetic', 'time thresholds',
                       'cancellation of client coroutines (see C16.R1b)']
    ctx.assumptions = [
        'exception model: only awaits and explicit raise statements raise; '
        'asserts hold; `except Exception` catches what arrives in spawned '
        'tasks', SCOPE_NOTE]
    pm = ledger_rule(repo, ctx, 'C15.R1')
    ctx.floor('C15.R1', 10)

    # ---- R2 capacity guard -------------------------------------------
    ctx.floor('C15.R2', 4)
    opener = pm.repo.find_method(pm.pool.qualname, '_schedule_new_conn')
    if opener is None:
        raise AnalysisError('C15.R2: _schedule_new_conn not found')
    for f, g, nid, call in _call_sites(pm, opener.name):
        guard = None
        # (a) dominated by the true edge of a capacity test
        for t in g.nodes:
            if t.kind != 'test':
                continue
            direct = _positive_conjunct(t.ast, _is_cap_test)
            via_local = None
            if not direct:
                def _is_local(e, _g=g, _t=t):
                    return isinstance(e, ast.Name)
                for cj in _conjuncts(t.ast):
                    if isinstance(cj, ast.Name):
                        # local bound to a capacity test by a dominating
                        # assignment, with nothing in between that suspends
                        # or changes the capacity
                        for a in g.nodes:
                            if a.kind == 'stmt' and isinstance(
                                    a.ast, ast.Assign) and len(
                                        a.ast.targets) == 1 and norm(
                                            a.ast.targets[0]) == cj.id \
                                    and _is_cap_test(a.ast.value) \
                                    and g.always_before(t.id, [a.id]) \
                                    and _seg_clear(g, a.id, nid) \
                                    and not _cap_written_between(
                                        pm, f, g, a.id, nid):
                                via_local = a.id
            if (direct or via_local is not None) \
                    and g.edge_dominates(t.id, 'T', nid) \
                    and _seg_clear(g, t.id, nid):
                # no *other* opener between the test and this site, unless
                # the test is a loop condition re-evaluated each time
                guard = f'test L{t.lineno}: {norm(t.ast)[:70]}'
                if via_local is not None:
                    guard += f' (local bound at L{g.nodes[via_local].lineno})'
                break
        if guard is None:
            # (a2) the call is the body of `for _ in range(.. free room ..)`:
            # every iteration takes one slot and the trip count is bounded
            # by max - cur, read in the same atomic segment
            from ..model import inline_locals as _il
            for lp in g.nodes:
                if lp.kind != 'for' or not isinstance(
                        lp.ast.iter, ast.Call) or norm(
                        lp.ast.iter.func) != 'range' or len(
                        lp.ast.iter.args) != 1:
                    continue
                if not any(y is call for st_ in lp.ast.body
                           for y in ast.walk(st_)):
                    continue
                openers_in_body = [y for st_ in lp.ast.body
                                   for y in ast.walk(st_)
                                   if isinstance(y, ast.Call) and
                                   norm(y.func) == norm(call.func)]
                bound = lp.ast.iter.args[0]
                terms = bound.args if isinstance(bound, ast.Call) and norm(
                    bound.func) == 'min' else [bound]
                room = False
                for tm in terms:
                    try:
                        tx = _il(f.node, tm)
                    except Exception:
                        tx = norm(tm)
                    if tx.replace('(', '').replace(')', '') != \
                            'self._max_capacity - self._cur_capacity':
                        continue
                    if isinstance(tm, ast.Name):
                        # the free room was read into a local: that read
                        # has to precede the loop with no change of the
                        # capacity in between (a value read once before a
                        # scan over several blocks is stale from the second
                        # block on)
                        defs_ = [a_.id for a_ in g.nodes
                                 if a_.kind == 'stmt' and isinstance(
                                     a_.ast, ast.Assign) and len(
                                     a_.ast.targets) == 1 and norm(
                                     a_.ast.targets[0]) == tm.id]
                        if len(defs_) != 1 or not g.always_before(
                                lp.id, defs_) or _cap_written_between(
                                pm, f, g, defs_[0], lp.id) or \
                                not _seg_clear(g, defs_[0], lp.id):
                            continue
                        # ... and it is read afresh every time the loop is
                        # entered: the assignment sits in the same statement
                        # list as the loop, with nothing but call-free
                        # statements in between
                        fresh = False
                        dnode = g.nodes[defs_[0]].ast
                        for owner in ast.walk(f.node):
                            for fld in ('body', 'orelse', 'finalbody'):
                                blk_ = getattr(owner, fld, None)
                                if isinstance(blk_, list) and any(
                                        x is lp.ast for x in blk_) and any(
                                        x is dnode for x in blk_):
                                    i0 = next(k for k, x in enumerate(blk_)
                                              if x is dnode)
                                    i1 = next(k for k, x in enumerate(blk_)
                                              if x is lp.ast)
                                    fresh = i0 < i1 and not any(
                                        isinstance(y, (ast.Call, ast.Await))
                                        for x in blk_[i0 + 1:i1]
                                        for y in ast.walk(x))
                        if not fresh:
                            continue
                    room = True
                if room and len(openers_in_body) == 1 and len(
                        lp.ast.body) == 1 and _seg_clear(g, lp.id, nid):
                    guard = (f'loop L{lp.lineno}: at most max - cur '
                             f'iterations, one slot each')
                    break
        comp = None
        if guard is None:
            # (b1) compensation: a capacity slot was given back in the same
            # atomic segment
            for a in g.nodes:
                atoms = pm.atoms(f, g, a.id)
                if any(x.kind == 'eff' and x.what == 'cap-1' for x in atoms) \
                        and g.always_before(nid, [a.id]) \
                        and _seg_clear(g, a.id, nid):
                    comp = f'slot released at L{a.lineno} in the same segment'
            # (b2) compensation: replacing the connection the holder hands
            # back as broken (counts as closed from that moment)
            # (the discard must have happened on *every* path to the
            # opener: when the connection was instead handed over to another
            # block it keeps its slot, and a replacement would be one too
            # many)
            for d in (g.nodes if comp is None else []):
                if d.kind != 'stmt':
                    continue
                for c in g.node_calls(d):
                    t = pm.resolve(f, c)
                    if t is not None and t.name == '_schedule_discard' \
                            and call.args and c.args \
                            and norm(c.args[0]) == norm(call.args[0]) \
                            and _param_guard(g, d.id, 'discard') \
                            and g.always_before(nid, [d.id]) \
                            and _seg_clear(g, d.id, nid):
                        comp = ('replacement for the connection discarded '
                                'on release(discard=True) for the same block')
        ok = guard is not None or comp is not None
        ctx.ob('C15.R2', f'{short(f)}:call={opener.name}@{_ordinal(g, f, pm, nid, opener.name)}',
               ok, 'new connection scheduled without a capacity test in the '
               'same atomic segment and not a listed compensation',
               f'{f.module.rel()}:{call.lineno}',
               sample=guard or comp)
    # a reference to the opener that is not a direct call (a callback handed
    # to call_later / call_soon / partial / create_task) runs later in a
    # segment of its own: no capacity test or compensation of the scheduling
    # site still holds by then
    for f in pm.funcs:
        called = {id(c.func) for c in ast.walk(f.node)
                  if isinstance(c, ast.Call)}
        for a in ast.walk(f.node):
            if isinstance(a, ast.Attribute) and a.attr == opener.name \
                    and isinstance(a.ctx, ast.Load) and id(a) not in called:
                ctx.ob('C15.R2', f'{short(f)}:deferred={opener.name}', False,
                       f'{opener.name} is handed on as a callback: it will '
                       f'take a capacity slot in a later segment, where '
                       f'neither the capacity test nor the released slot of '
                       f'this site is still valid (other blocks may have '
                       f'filled the pool meanwhile)',
                       f'{f.module.rel()}:{a.lineno}')
    # cap += 1 sites: the opener itself and the transfer hand-over, the
    # latter only after the awaited disconnect
    for f in pm.funcs:
        g = pm.cfg(f)
        for n in g.nodes:
            for a in pm.atoms(f, g, n.id):
                if a.kind == 'eff' and a.what == 'cap+1':
                    if f is opener:
                        ok, why = True, 'the opener itself'
                    else:
                        dis = [x.id for x in g.nodes if any(
                            y.kind == 'await' and y.callee is pm.disconnect_fn
                            for y in pm.atoms(f, g, x.id))]
                        ok = bool(dis) and g.always_before(n.id, dis)
                        why = 'after the awaited disconnect of the moved ' \
                              'connection'
                    ctx.ob('C15.R2', f'{short(f)}:cap+1', ok,
                           'capacity incremented outside the opener without '
                           'a preceding completed disconnect',
                           f'{f.module.rel()}:{n.lineno}', sample=why)

    # ---- R1b slot lifetime brackets connection lifetime -----------------
    # a capacity slot is released only after the close/open attempt has
    # completed, and a connect is only started under a slot taken in the
    # same atomic segment (otherwise usage is under-reported while a
    # connection is still open/opening and a concurrent acquire can exceed
    # the maximum)
    for role, fn, cb in (('disconnect', pm.disconnect_fn, '_disconnect_cb'),
                         ('connect', pm.connect_fn, '_connect_cb')):
        g = pm.cfg(fn)
        aw = [n.id for n in g.nodes if any(
            isinstance(x, ast.Await) and isinstance(x.value, ast.Call)
            and norm(x.value.func) == f'self.{cb}'
            for e in g.node_exprs(n) for x in ast.walk(e))]
        rel = [n for n in g.nodes if any(
            a.kind == 'eff' and a.what == 'cap-1'
            for a in pm.atoms(fn, g, n.id))]
        if not aw:
            raise AnalysisError(f'C15.R1b: await of {cb} not found')
        for n in rel:
            ok = g.always_before(n.id, aw)
            ctx.ob('C15.R1', f'{short(fn)}:slot-released-after-{role}', ok,
                   f'the capacity slot is released before the await of '
                   f'{cb} has completed: while the connection is still '
                   f'{"closing" if role == "disconnect" else "being opened"} '
                   f'the pool under-reports its usage and a concurrent '
                   f'acquire can exceed max_capacity',
                   f'{fn.module.rel()}:{n.lineno}',
                   sample=f'cap-1 dominated by await {cb}')
    for f, g, nid, call in _call_sites(pm, pm.connect_fn.name):
        if pm.resolve(f, call) is not pm.connect_fn:
            continue
        takes = [n.id for n in g.nodes if any(
            a.kind == 'eff' and a.what == 'cap+1'
            for a in pm.atoms(f, g, n.id))]
        ok = bool(takes) and g.always_before(nid, takes) and all(
            _seg_clear(g, t, nid) for t in takes
            if nid in g.reachable([t]))
        ctx.ob('C15.R1', f'{short(f)}:connect-under-slot', ok,
               f'{short(f)} starts a connect without having taken a '
               f'capacity slot in the same atomic segment',
               f'{f.module.rel()}:{call.lineno}',
               sample='cap+1 precedes the connect, no await in between')

    # ---- R3 single writer ---------------------------------------------
    ctx.floor('C15.R3', 12)
    seen_writers: Dict[str, Set[str]] = {k: set() for k in WRITERS}
    for m in repo.modules_in('edb'):
        if m.name == 'edb.server.connpool.pool2':
            continue   # separate Rust-backed pool with its own counter
        for attr, kind, node in module_attr_writes(m):
            if attr not in WRITERS:
                continue
            f = repo.enclosing_function(m, node)
            if f is None:
                continue
            if f.cls is not None and f.cls.name == '_NaivePool':
                continue
            if True:
                if m.name != POOL_MOD:
                    # same attribute name on an unrelated object?
                    if attr in ('conns', 'in_use'):
                        continue
                    ctx.fail('C15.R3', f'{f.qualname}:{attr}',
                             f'ledger field {attr} written outside pool.py',
                             f'{m.rel()}:{node.lineno}')
                    continue
                who = short(f)
                seen_writers[attr].add(who)
                ok = who in WRITERS[attr]
                ctx.ob('C15.R3', f'{who}:{attr}', ok,
                       f'{attr} written ({kind}) by a function that is not '
                       f'one of its owners {sorted(WRITERS[attr])}',
                       f'{m.rel()}:{node.lineno}',
                       sample=f'{kind}: {WRITERS[attr].get(who, "")}')
    for attr, owners in WRITERS.items():
        gone = set(owners) - seen_writers[attr]
        if gone == set(owners):
            raise AnalysisError(f'C15.R3: no writer of {attr} found')

    # ---- R4 lend typestate ------------------------------------------------
    ctx.floor('C15.R4', 10)
    _typestate(pm, ctx)

    # ---- R5 affinity ------------------------------------------------------
    ctx.floor('C15.R5', 4)
    _affinity(pm, ctx)

    # ---- R12 the reported usage is the ledger -------------------------------
    _reported_usage(pm, ctx)


def _conjuncts(e):
    if isinstance(e, ast.BoolOp) and isinstance(e.op, ast.And):
        for v in e.values:
            yield from _conjuncts(v)
    else:
        yield e


def _cap_written_between(pm, f, g, a, b) -> bool:
    between = g.reachable([a], stop_at=[b]) & _can_reach(g, b)
    between -= {a, b}
    for x in between:
        for at in pm.atoms(f, g, x):
            k = at.kind.split(':')[-1]
            if k == 'eff' and at.what.startswith('cap'):
                return True
    return False


def _param_guard(g: CFG, nid: int, pname: str) -> bool:
    """nid is dominated by the true edge of a test on parameter pname."""
    for t in g.nodes:
        if t.kind == 'test' and norm(t.ast) == pname \
                and g.edge_dominates(t.id, 'T', nid):
            return True
    return False


def _ordinal(g, f, pm, nid, name) -> int:
    k = 0
    for n in g.nodes:
        for c in g.node_calls(n):
            t = pm.resolve(f, c)
            if t is not None and t.name == name:
                if n.id == nid:
                    return k
                k += 1
    return k


# ----------------------------------------------------------------------

STOLEN_SOURCES = {'try_steal', 'try_acquire'}


def _conn_provenance(pm: PoolModel, f: FuncInfo, g: CFG, nid: int,
                     arg: ast.AST, depth: int = 0) -> Tuple[str, str]:
    """Classify where the connection passed at node nid comes from.
    Returns (class, explanation); class in stolen / fresh / in-use-released /
    param:<name> / unknown."""
    if not isinstance(arg, ast.Name):
        return 'unknown', norm(arg)
    name = arg.id
    # bindings of `name` in f
    binds = []
    for n in walk_no_nested(f.node):
        if isinstance(n, ast.NamedExpr) and norm(n.target) == name:
            binds.append(n.value)
        elif isinstance(n, ast.Assign) and any(
                norm(t) == name for t in n.targets):
            binds.append(n.value)
        elif isinstance(n, (ast.For, ast.comprehension)) and norm(
                n.target) == name:
            binds.append(('iter', n.iter))
    params = f.params()
    if not binds and name in params:
        return f'param:{name}', f'parameter {name} of {short(f)}'
    classes = set()
    why = []
    for b in binds:
        if isinstance(b, tuple):
            if depth > 0:
                continue   # the list's own loop variable: not a source
            it = b[1]
            # list of stolen connections built in this function
            lst = norm(it)
            apps = [c for c in ast.walk(f.node) if isinstance(c, ast.Call)
                    and isinstance(c.func, ast.Attribute)
                    and c.func.attr == 'append'
                    and norm(c.func.value) == lst]
            if apps and isinstance(it, ast.Name):
                for c in apps:
                    k, w = _conn_provenance(pm, f, g, nid, c.args[0],
                                            depth + 1)
                    classes.add(k)
                    why.append(w)
            elif lst.endswith('.conns'):
                classes.add('all-of-block')
                why.append(f'iterates {lst}')
            else:
                classes.add('unknown')
                why.append(f'iterates {lst}')
            continue
        v = b.value if isinstance(b, ast.Await) else b
        if isinstance(v, ast.Call) and isinstance(v.func, ast.Attribute):
            if v.func.attr in STOLEN_SOURCES:
                classes.add('stolen')
                why.append(f'{norm(v)[:40]}')
                continue
            if norm(v.func) == 'self._connect_cb':
                classes.add('fresh')
                why.append('result of the connect callback')
                continue
            if v.func.attr == 'acquire' and pm.recv_class(
                    f, v.func.value) is pm.block:
                classes.add('stolen')
                why.append(f'{norm(v)[:40]}')
                continue
        classes.add('unknown')
        why.append(norm(b)[:40])
    if len(classes) == 1:
        return classes.pop(), '; '.join(why)
    return 'unknown', '; '.join(why)


def _typestate(pm: PoolModel, ctx) -> None:
    repo = pm.repo
    # (1) stack exits / entries are at the owner sites (R3 froze writers);
    # entries: exactly one append, in Block.release, followed by the wake-up
    rel = repo.find_method(pm.block.qualname, 'release')
    if rel is None:
        raise AnalysisError('Block.release not found')
    apps = [(f, n) for f in pm.funcs for a, k, n in _attr_writes(f.node)
            if a == 'conn_stack' and k in ('append', 'appendleft', 'extend',
                                           'insert')]
    ctx.ob('C15.R4', 'conn_stack:single-entry',
           len(apps) == 1 and apps[0][0] is rel,
           f'conn_stack gains elements at {[short(f) for f, _ in apps]}; '
           f'expected only Block.release', rel.loc,
           sample='conn_stack.append only in Block.release')

    # (2) callers of Block.release / _release_unused hand in a connection
    # that is not lent
    def check_release_callers(target: FuncInfo, seen: Set[str]):
        if target.qualname in seen:
            return
        seen.add(target.qualname)
        for f, g, nid, call in _call_sites(pm, target.name):
            t = pm.resolve(f, call)
            if t is not target:
                continue
            if not call.args:
                ctx.fail('C15.R4', f'{short(f)}:call={target.name}',
                         'release without a connection', f.loc)
                continue
            arg = call.args[-1]
            k, why = _conn_provenance(pm, f, g, nid, arg)
            ok = False
            note = why
            if k in ('stolen', 'fresh'):
                ok = True
            elif k.startswith('param:'):
                pname = k.split(':', 1)[1]
                if f.name == 'release' and f.cls is not pm.block:
                    # Pool.release: the in_use flag must have been cleared on
                    # every path to this call
                    clears = [x.id for x in g.nodes if x.kind == 'stmt'
                              and isinstance(x.ast, ast.Assign)
                              and norm(x.ast.targets[0]).endswith('.in_use')
                              and isinstance(x.ast.value, ast.Constant)
                              and x.ast.value.value is False]
                    ok = bool(clears) and g.always_before(nid, clears)
                    note = 'in_use cleared on every path before hand-back'
                else:
                    # forwarded parameter: check this function's callers
                    check_release_callers(f, seen)
                    ok = True
                    note = f'forwards its parameter {pname}; callers checked'
            ctx.ob('C15.R4',
                   f'{short(f)}:call={target.name}({norm(arg)})', ok,
                   f'connection handed to {target.name} is not provably '
                   f'un-lent ({k}: {why})',
                   f'{f.module.rel()}:{call.lineno}', sample=f'{k}: {note}')
    check_release_callers(rel, set())

    # (2b) a connection handed back as broken (discard=True) is never put
    # back on the idle stack: it "counts as closed from that moment"
    for f in pm.funcs:
        if 'discard' not in f.params():
            continue
        g = pm.cfg(f)
        tests = [t.id for t in g.nodes if t.kind == 'test'
                 and norm(t.ast) == 'discard']
        for n in g.nodes:
            for c in g.node_calls(n):
                t = pm.resolve(f, c)
                if t is None or t.name not in ('_release_unused', 'release'):
                    continue
                if t.name == 'release' and t.cls is not pm.block:
                    continue
                ok = any(g.edge_dominates(tt, 'F', n.id) for tt in tests)
                ctx.ob('C15.R4', f'{short(f)}:broken-conn-not-reused', ok,
                       f'{short(f)} can put the connection back on the idle '
                       f'stack on a path where discard is true: a connection '
                       f'handed back as broken would be lent again',
                       f'{f.module.rel()}:{c.lineno}',
                       sample='idle-stack return dominated by `discard` '
                              'being false')

    # (3) in_use = True only in Pool.acquire, dominated by the assert
    acq = repo.find_method(pm.pool.qualname, 'acquire')
    for f in pm.funcs:
        g = pm.cfg(f)
        for n in g.nodes:
            if n.kind == 'stmt' and isinstance(n.ast, ast.Assign) \
                    and norm(n.ast.targets[0]).endswith('.in_use') \
                    and isinstance(n.ast.value, ast.Constant):
                if n.ast.value.value is True:
                    asserts = [x.id for x in g.nodes if x.kind == 'stmt'
                               and isinstance(x.ast, ast.Assert)
                               and norm(x.ast.test).startswith('not ')
                               and norm(x.ast.test).endswith('.in_use')]
                    ok = f is acq and bool(asserts) and g.always_before(
                        n.id, asserts)
                    # the lent connection is the one popped for this request
                    ctx.ob('C15.R4', f'{short(f)}:in_use=True', ok,
                           'in_use set outside Pool.acquire or without the '
                           'not-in-use assertion', f'{f.module.rel()}:{n.lineno}',
                           sample='lend site dominated by `assert not in_use`')
    # (4) every removal from conns concerns a connection that is not on the
    # idle stack: stolen/popped in this segment, or the in-use connection
    # being released; clear() paired with conn_stack.clear()
    def check_removed_arg(f, g, nid, arg, label, seen):
        k, why = _conn_provenance(pm, f, g, nid, arg)
        if k in ('stolen',):
            return True, f'{k}: {why}'
        if k.startswith('param:'):
            pname = k.split(':', 1)[1]
            idx = f.params().index(pname) - (1 if f.cls else 0)
            if f.name == 'release' and f.cls is pm.pool:
                # in-use connection (checked by the RuntimeError guard)
                guards = [x for x in g.nodes if x.kind == 'test'
                          and 'in_use' in norm(x.ast)
                          and norm(x.ast).startswith('not ')]
                ok = any(_raises_on_true(g, x.id) and g.always_before(
                    nid, [x.id]) for x in guards)
                return ok, 'in-use connection being handed back'
            key = (f.qualname, pname)
            if key in seen:
                return True, 'recursive'
            seen.add(key)
            oks = []
            sites = list(_call_sites(pm, f.name))
            if not sites:
                return False, f'{short(f)} has no caller'
            for cf, cg, cn, cc in sites:
                if pm.resolve(cf, cc) is not f:
                    continue
                if idx >= len(cc.args):
                    return False, f'call {norm(cc)[:50]} passes no {pname}'
                o, w = check_removed_arg(cf, cg, cn, cc.args[idx], label, seen)
                oks.append((o, f'{short(cf)}: {w}'))
            return all(o for o, _ in oks), ' | '.join(w for _, w in oks)
        return False, f'{k}: {why}'

    for f in pm.funcs:
        g = pm.cfg(f)
        for n in g.nodes:
            for c in g.node_calls(n):
                fn = c.func
                if isinstance(fn, ast.Attribute) and isinstance(
                        fn.value, ast.Attribute) and fn.value.attr == 'conns':
                    if fn.attr == 'pop' and c.args:
                        ok, why = check_removed_arg(f, g, n.id, c.args[0],
                                                    'pop', set())
                        # and the not-in-use assertion precedes
                        asserts = [x.id for x in g.nodes if x.kind == 'stmt'
                                   and isinstance(x.ast, ast.Assert)
                                   and norm(x.ast.test).startswith('not ')
                                   and norm(x.ast.test).endswith('.in_use')]
                        ok2 = bool(asserts) and g.always_before(n.id, asserts)
                        ctx.ob('C15.R4', f'{short(f)}:conns.pop', ok and ok2,
                               f'connection removed from conns may still be '
                               f'on the idle stack or lent ({why}; '
                               f'assert-not-in-use={ok2})',
                               f'{f.module.rel()}:{c.lineno}', sample=why)
                        # must reach the disconnect
                        ok3 = _must_disconnect(pm, f, g, n.id, c.args[0])
                        ctx.ob('C15.R4', f'{short(f)}:conns.pop->disconnect',
                               ok3, 'a connection removed from conns does '
                               'not reach the disconnect on every path',
                               f'{f.module.rel()}:{c.lineno}',
                               sample='every path reaches _disconnect(conn)')
                    elif fn.attr == 'clear':
                        blk = norm(fn.value.value)
                        body_clear = [x for x in ast.walk(f.node)
                                      if isinstance(x, ast.Call)
                                      and norm(x.func) ==
                                      f'{blk}.conn_stack.clear']
                        # every element is handed to the disconnect first
                        loops = [x for x in ast.walk(f.node)
                                 if isinstance(x, ast.For)
                                 and norm(x.iter) == f'{blk}.conns']
                        handed = any(
                            pm.resolve(f, cc) is pm.disconnect_fn
                            for lp in loops for cc in ast.walk(lp)
                            if isinstance(cc, ast.Call))
                        gathered = any(
                            isinstance(x, ast.Await) and 'gather' in norm(x)
                            for x in ast.walk(f.node))
                        ok = bool(body_clear) and handed and gathered
                        ctx.ob('C15.R4', f'{short(f)}:conns.clear', ok,
                               'conns.clear() without clearing the idle '
                               'stack of the same block and disconnecting '
                               'every element', f'{f.module.rel()}:{c.lineno}',
                               sample='paired with conn_stack.clear(), each '
                                      'conn handed to _disconnect, gathered')
    _disconnect_only_unregistered(pm, ctx)


def _disconnect_only_unregistered(pm: PoolModel, ctx) -> None:
    """The converse of conns.pop->disconnect: a connection handed to the
    disconnect has left `conns` (popped on every path before the call, in
    this function or - for a parameter - in every caller; or the whole
    table is cleared right after the loop that hands every element over).
    A connection that is closed while still registered is closed and
    un-counted again by the next release/discard."""
    dfn = pm.disconnect_fn
    n_sites = 0

    def popped(f, g, nid, arg, seen) -> Tuple[bool, str]:
        name = norm(arg)
        pops = [n.id for n in g.nodes for c in g.node_calls(n)
                if isinstance(c.func, ast.Attribute) and c.func.attr == 'pop'
                and isinstance(c.func.value, ast.Attribute)
                and c.func.value.attr == 'conns' and c.args
                and norm(c.args[0]) == name]
        if pops and g.always_before(nid, pops):
            return True, f'popped in {short(f)}'
        # whole-table form
        for lp in ast.walk(f.node):
            it = None
            if isinstance(lp, ast.For):
                it, tv = lp.iter, norm(lp.target)
            elif isinstance(lp, ast.comprehension):
                it, tv = lp.iter, norm(lp.target)
            if it is None or tv != name or not (isinstance(
                    it, ast.Attribute) and it.attr == 'conns'):
                continue
            blk = norm(it.value)
            clears = [n.id for n in g.nodes for c in g.node_calls(n)
                      if norm(c.func) == f'{blk}.conns.clear']
            if clears and all(g.always_after(x, clears, exits={g.exit})
                              for x in ([nid] if nid is not None else [])):
                return True, f'{blk}.conns cleared after the hand-over loop'
            return False, (f'every element of {blk}.conns is disconnected '
                           f'but the table is not cleared')
        if name in f.params():
            key = (f.qualname, name)
            if key in seen:
                return True, 'recursive'
            seen.add(key)
            idx = f.params().index(name) - (1 if f.cls else 0)
            sites = [s for s in _call_sites(pm, f.name)
                     if pm.resolve(s[0], s[3]) is f]
            if not sites:
                return False, f'{short(f)} has no caller'
            res = []
            for cf, cg, cn, cc in sites:
                if idx >= len(cc.args):
                    return False, f'{norm(cc)[:40]} passes no {name}'
                o, w = popped(cf, cg, cn, cc.args[idx], seen)
                res.append((o, w))
            return all(o for o, _ in res), ' | '.join(w for _, w in res)
        return False, f'`{name}` is still registered in conns'

    for f, g, nid, call in _call_sites(pm, dfn.name):
        if pm.resolve(f, call) is not dfn or not call.args:
            continue
        n_sites += 1
        ok, why = popped(f, g, nid, call.args[0], set())
        ctx.ob('C15.R4', f'{short(f)}:disconnect-of-unregistered@L'
               f'{call.lineno - f.node.lineno}', ok,
               f'{short(f)} closes a connection that has not left conns '
               f'({why}): it stays registered, so a later release / '
               f'discard / prune closes it and gives back its capacity '
               f'slot a second time (usage under-reported, then the '
               f'maximum is exceeded)', f'{f.module.rel()}:{call.lineno}',
               sample=why)
    if n_sites < 1:
        raise AnalysisError('C15.R4: no disconnect call site found')


def _raises_on_true(g: CFG, tid: int) -> bool:
    succ = [s for s, lab in g.nodes[tid].succ if lab == 'T']
    r = g.reachable(succ) | set(succ)
    return bool(succ) and g.exit not in r


def _must_disconnect(pm: PoolModel, f: FuncInfo, g: CFG, nid: int,
                     arg: ast.AST, _seen=None) -> bool:
    """Every normal path from nid to the function's exit passes a node that
    disconnects `arg` (directly, by await/spawn of a coroutine that must)."""
    _seen = _seen or set()
    name = norm(arg)
    hits = []
    for n in g.nodes:
        for c in g.node_calls(n):
            t = pm.resolve(f, c)
            if t is None:
                continue
            pos = [i for i, a in enumerate(c.args) if norm(a) == name]
            if not pos:
                continue
            if t is pm.disconnect_fn:
                hits.append(n.id)
            else:
                pname_idx = pos[0] + (1 if t.cls else 0)
                ps = t.params()
                if pname_idx < len(ps):
                    key = (t.qualname, ps[pname_idx])
                    if key in _seen:
                        continue
                    _seen.add(key)
                    tg = pm.cfg(t)
                    if _must_disconnect_from_entry(pm, t, tg, ps[pname_idx],
                                                   _seen):
                        hits.append(n.id)
    return bool(hits) and g.always_after(nid, hits, exits={g.exit},
                                         first_labels={'n'})


def _must_disconnect_from_entry(pm, t, tg, pname, _seen) -> bool:
    return _must_disconnect(pm, t, tg, tg.entry, ast.Name(id=pname),
                            _seen)


def _affinity(pm: PoolModel, ctx) -> None:
    repo = pm.repo
    acq = repo.find_method(pm.pool.qualname, 'acquire')
    inner = repo.find_method(pm.pool.qualname, '_acquire')
    if acq is None or inner is None:
        raise AnalysisError('Pool.acquire/_acquire not found')
    db = acq.params()[1]
    # acquire passes its dbname through
    calls = [c for c in ast.walk(acq.node) if isinstance(c, ast.Call)
             and pm.resolve(acq, c) is inner]
    ok = bool(calls) and all(len(c.args) == 1 and norm(c.args[0]) == db
                             for c in calls)
    ctx.ob('C15.R5', 'Pool.acquire:forwards-dbname', ok,
           'acquire does not forward its own dbname to _acquire', acq.loc,
           sample=f'_acquire({db})')
    # the block examined after the wait is the block of dbname
    blk = [n for n in ast.walk(acq.node) if isinstance(n, ast.Assign)
           and norm(n.targets[0]) == 'block']
    ok = bool(blk) and all(norm(n.value) in (f'self._blocks[{db}]',
                                             f'self._get_block({db})')
                           for n in blk)
    ctx.ob('C15.R5', 'Pool.acquire:marks-same-block', ok,
           'in_use bookkeeping is done on a block other than the requested '
           'database\'s', acq.loc, sample=f'block = self._blocks[{db}]')
    # _acquire: block = self._get_block(dbname); every return is
    # `await block.acquire()`
    idb = inner.params()[1]
    blk = [n for n in walk_no_nested(inner.node) if isinstance(n, ast.Assign)
           and norm(n.targets[0]) == 'block']
    ok = len(blk) == 1 and norm(blk[0].value) == f'self._get_block({idb})'
    ctx.ob('C15.R5', 'Pool._acquire:block-of-dbname', ok,
           '_acquire does not use the block of the requested database',
           inner.loc, sample=f'block = self._get_block({idb})')
    rets = [n for n in walk_no_nested(inner.node) if isinstance(n, ast.Return)]
    ok = bool(rets) and all(n.value is not None and norm(n.value) ==
                            'await block.acquire()' for n in rets)
    ctx.ob('C15.R5', 'Pool._acquire:returns-from-own-block', ok,
           'a return of _acquire is not `await block.acquire()` of the '
           'requested block', inner.loc,
           sample=f'{len(rets)} returns, all await block.acquire()')
    # _get_block(dbname) looks the name up / creates under the same name
    gb = repo.find_method(pm.pool.qualname, '_get_block')
    nb = repo.find_method(pm.pool.qualname, '_new_block')
    if gb is None or nb is None:
        raise AnalysisError('_get_block/_new_block not found')
    p = gb.params()[1]
    txt = norm(gb.node)
    ok = f'self._blocks.get({p})' in txt and f'self._new_block({p})' in txt
    ctx.ob('C15.R5', 'BasePool._get_block:keyed-by-dbname', ok,
           '_get_block does not look up / create under the requested name',
           gb.loc, sample='_blocks.get(dbname) / _new_block(dbname)')
    p = nb.params()[1]
    from .. import shapes as SH
    from ..model import inline_locals
    st = SH.subscript_stores(nb.node, 'self._blocks')
    if not st:
        raise AnalysisError('C15.R5: _new_block no longer stores into '
                            '_blocks')
    ok = all(norm(a.targets[0].slice) == p and inline_locals(
        nb.node, a.value).startswith(f'Block({p},') for a in st)
    ctx.ob('C15.R5', 'BasePool._new_block:keyed-by-dbname', ok,
           '_new_block registers the block under a different name', nb.loc,
           sample='Block(dbname, ...) stored at _blocks[dbname]')
    # _connect: connects to block.dbname and stores into the same block
    con = pm.connect_fn
    bparam = con.params()[1]
    aw = [n for n in ast.walk(con.node) if isinstance(n, ast.Await)
          and isinstance(n.value, ast.Call)
          and norm(n.value.func) == 'self._connect_cb']
    ok = bool(aw) and all(len(n.value.args) == 1 and norm(n.value.args[0])
                          == f'{bparam}.dbname' for n in aw)
    ctx.ob('C15.R5', f'{short(con)}:connects-to-block-db', ok,
           'connect callback is not called with the dbname of the block the '
           'connection is stored in', con.loc,
           sample=f'_connect_cb({bparam}.dbname)')
    stores = [n for n in ast.walk(con.node) if isinstance(n, ast.Assign)
              and isinstance(n.targets[0], ast.Subscript)
              and norm(n.targets[0].value).endswith('.conns')]
    rels = [c for c in ast.walk(con.node) if isinstance(c, ast.Call)
            and isinstance(c.func, ast.Attribute) and c.func.attr == 'release'
            and pm.recv_class(con, c.func.value) is pm.block]
    ok = bool(stores) and all(norm(n.targets[0].value) == f'{bparam}.conns'
                              for n in stores) and bool(rels) and all(
        norm(c.func.value) == bparam for c in rels)
    ctx.ob('C15.R5', f'{short(con)}:stores-into-same-block', ok,
           'fresh connection stored in / released to a different block than '
           'the one it was opened for', con.loc,
           sample=f'{bparam}.conns[conn] = ...; {bparam}.release(conn)')
    # Block.dbname assigned only in __init__ from the parameter
    for f in pm.funcs:
        for a, k, n in _attr_writes(f.node):
            if a == 'dbname':
                ok = f.name == '__init__' and f.cls is pm.block
                ctx.ob('C15.R5', f'{short(f)}:dbname-write', ok,
                       'Block.dbname reassigned', f'{f.module.rel()}:{n.lineno}',
                       sample='dbname set once in Block.__init__')



def _reported_usage(pm: PoolModel, ctx) -> None:
    """C15.R12 what the pool reports as its usage is read from the ledger.
    R1 shows `_cur_capacity` equals the number of connections that are open,
    being opened or being closed: it is the one counter the close paths hold
    until the disconnect has completed (a connection being closed has already
    left its block's `conns`).  A report computed from the blocks' own
    counters therefore drops the connections being closed."""
    ctx.floor('C15.R12', 2)
    LEDGER = '_cur_capacity'

    def reads_ledger(e: ast.AST, fn: Optional[ast.AST] = None, depth=3):
        for x in ast.walk(e):
            if isinstance(x, ast.Attribute) and x.attr == LEDGER:
                return True
            if depth and fn is not None and isinstance(x, ast.Name):
                for st in ast.walk(fn):
                    if isinstance(st, ast.Assign) and any(
                            isinstance(t, ast.Name) and t.id == x.id
                            for t in st.targets) and reads_ledger(
                                st.value, fn, depth - 1):
                        return True
        return False
    n = 0
    for cls in (pm.base, pm.pool):
        for name, f in cls.methods.items():
            if name == 'current_capacity':
                rets = [r for r in ast.walk(f.node)
                        if isinstance(r, ast.Return) and r.value is not None]
                ctx.saw(f)
                n += 1
                ok = bool(rets) and all(reads_ledger(r.value, f.node)
                                        for r in rets)
                ctx.ob('C15.R12', f'{cls.name}.current_capacity:is-the-ledger',
                       ok, f'current_capacity returns '
                       f'`{norm(rets[0].value)[:60] if rets else None}`, not '
                       f'the ledger {LEDGER}: connections that are being '
                       f'closed have left their block already and drop out '
                       f'of the reported usage while they still occupy a '
                       f'backend slot', f.loc,
                       sample=f'return self.{LEDGER}')
            for c in ast.walk(f.node):
                if isinstance(c, ast.Call) and (call_name(c) or '').split(
                        '.')[-1] == 'Snapshot':
                    v = kwarg(c, 'capacity')
                    if v is None:
                        continue
                    n += 1
                    ctx.saw(f)
                    ctx.ob('C15.R12', f'{cls.name}.{name}:snapshot-capacity',
                           reads_ledger(v, f.node),
                           f'the pool snapshot reports capacity='
                           f'`{norm(v)[:60]}`, not the ledger {LEDGER}',
                           f'{f.module.rel()}:{c.lineno}',
                           sample=f'capacity=self.{LEDGER}')
    if n < 2:
        raise AnalysisError(f'C15.R12: only {n} usage reports found '
                            f'(current_capacity, Snapshot(capacity=..))')
