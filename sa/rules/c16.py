"""C16 — every connection request is eventually served.

Liveness is not a shape property; the wake-up and hand-off disciplines it
needs are (DESIGN §3/C16):
  R1 wake-up pairing (idle connection => next waiter woken; a waiter that was
     woken but cannot take the call passes it on, for every exception class
     that can arrive; waiter count restored on all exits)
  R2 a failed connect reaches a retry or abort_waiters on every path
  R3 a request on a block with no connection registers a demand
  R4 no phantom pending connection (= the ledger of C15.R1)
  R5 the tick is kept alive while acquires are outstanding
"""
from __future__ import annotations

import ast
from typing import List, Set

from ..cfg import CFG
from ..ledger import POOL_MOD, PoolModel
from ..model import (AnalysisError, FuncInfo, Repo, call_name, dotted, norm,
                     walk_no_nested)
from .c15 import (SCOPE_NOTE, _call_sites, _conn_provenance, _seg_clear,
                  ledger_rule, short)


def _calls(g: CFG, n, name: str) -> bool:
    return any(isinstance(c.func, ast.Attribute) and c.func.attr == name
               for c in g.node_calls(n))


def run(repo: Repo, ctx) -> None:
    ctx.explanation = (
        'Decides the hand-off disciplines eventual service needs in '
        'edb/server/connpool/pool.py: R1 every connection that becomes idle '
        'wakes the next waiter in the same atomic segment, a woken waiter '
        'that leaves by any exception passes the wake-up on, the waiter '
        'count is restored on all exits; R2 the connect-failure handler '
        'reaches retry or abort_waiters on every path; R3 every path of '
        'Pool._acquire to the wait either registers a demand (new '
        'connection, steal, waitlist) or is dominated by a test implying the '
        'block already has a connection; R4 no phantom pending_conns '
        '(ledger, incl. exceptional exits); R5 tick kept alive while '
        'acquires are outstanding. Fairness/eventual service under all '
        'schedules is NOT decided. ' + SCOPE_NOTE)
    ctx.not_decided = ['fairness', 'eventual service under all schedules',
                       'quota arithmetic']
    ctx.assumptions = [
        'exception model: awaits raise Exception (abort_waiters) and, in '
        'coroutines a client awaits, CancelledError', SCOPE_NOTE]
    pm = PoolModel(repo)
    blk = pm.block

    # ---- R1 ------------------------------------------------------------
    ctx.floor('C16.R1', 4)
    wake = repo.find_method(blk.qualname, '_wakeup_next_waiter')
    if wake is None:
        raise AnalysisError('Block._wakeup_next_waiter not found')
    n_app = 0
    for f in pm.funcs:
        g = CFG(f.node, raise_pred=pm.raise_pred(f), assert_raises=False)
        for n in g.nodes:
            for c in g.node_calls(n):
                if isinstance(c.func, ast.Attribute) and c.func.attr in (
                        'append', 'appendleft') and norm(
                            c.func.value).endswith('.conn_stack'):
                    n_app += 1
                    wk = [x.id for x in g.nodes if _calls(g, x, wake.name)]
                    ok = bool(wk) and g.always_after(
                        n.id, wk, exits={g.exit, g.raise_},
                        first_labels={'n'}) and all(
                        _seg_clear(g, n.id, w) for w in wk
                        if w in g.reachable([n.id]))
                    ctx.ob('C16.R1', f'{short(f)}:conn_stack.append', ok,
                           'a connection becomes idle without waking the '
                           'next waiter in the same atomic segment',
                           f'{f.module.rel()}:{c.lineno}',
                           sample='append -> _wakeup_next_waiter, no await '
                                  'in between')
    if not n_app:
        raise AnalysisError('C16.R1: no conn_stack.append site')
    # _wakeup_next_waiter: pops until it finds a live waiter, sets its result
    # (locals are found by role: the variable bound to popleft())
    wl = [n for n in ast.walk(wake.node) if isinstance(n, ast.While)
          and 'conn_waiters' in norm(n.test)]
    if not wl and 'conn_waiters.popleft' not in norm(wake.node):
        raise AnalysisError('C16.R1: _wakeup_next_waiter no longer pops '
                            'conn_waiters')
    wl = wl or [wake.node]      # no loop: decided below as a finding
    looped = isinstance(wl[0], ast.While)
    wv = [a.targets[0].id for a in ast.walk(wl[0]) if isinstance(
        a, ast.Assign) and isinstance(a.targets[0], ast.Name)
        and norm(a.value).endswith('conn_waiters.popleft()')]
    ok = bool(wv) and looped
    brk_ok = False
    for n in ast.walk(wl[0]):
        if ok and isinstance(n, ast.If) and norm(n.test) in (
                f'not {wv[0]}.done()', f'(not {wv[0]}.done())'):
            kinds = [type(s).__name__ for s in n.body]
            if kinds and kinds[-1] == 'Break' and any(
                    f'{wv[0]}.set_result(' in norm(s) for s in n.body[:-1]):
                brk_ok = True
    ctx.ob('C16.R1', f'{short(wake)}:shape', ok and brk_ok,
           '_wakeup_next_waiter does not skip finished waiters and wake '
           'exactly one live waiter', wake.loc,
           sample='while waiters: popleft; if not done: set_result; break')
    # try_acquire: handler around `await waiter`
    ta = repo.find_method(blk.qualname, 'try_acquire')
    if ta is None:
        raise AnalysisError('Block.try_acquire not found')
    _waiter_vars = {norm(c.args[0]) for c in ast.walk(ta.node)
                    if isinstance(c, ast.Call) and norm(c.func).endswith(
                        'conn_waiters.append') and c.args} or {'waiter'}
    tries = []
    def _direct(body):
        # awaits of `waiter` in this block, not inside a nested try
        stack = list(body)
        while stack:
            x = stack.pop()
            if isinstance(x, ast.Try):
                continue
            if isinstance(x, ast.Await) and norm(x.value) in _waiter_vars:
                return True
            stack.extend(ast.iter_child_nodes(x))
        return False
    for n in ast.walk(ta.node):
        if isinstance(n, ast.Try) and _direct(n.body):
            tries.append(n)
    if not tries:
        raise AnalysisError('C16.R1: `await waiter` not inside a try in '
                            'try_acquire')
    for t in tries:
        # (a) some handler catches Exception; (b) it also catches
        # CancelledError (client-awaited coroutine): BaseException or bare
        names = []
        for h in t.handlers:
            if h.type is None:
                names.append('<bare>')
            else:
                ts = h.type.elts if isinstance(h.type, ast.Tuple) else [h.type]
                names += [(dotted(x) or '?').split('.')[-1] for x in ts]
        covers_a = any(x in ('Exception', 'BaseException', '<bare>')
                       for x in names)
        covers_b = any(x in ('BaseException', '<bare>', 'CancelledError')
                       for x in names)
        ctx.ob('C16.R1', f'{short(ta)}:handler-covers-Exception', covers_a,
               'no handler around `await waiter` for the exception '
               'abort_waiters stores', f'{ta.module.rel()}:{t.lineno}',
               sample=f'handlers: {names}')
        ctx.ob('C16.R1', f'{short(ta)}:handler-covers-CancelledError',
               covers_b,
               'the handler around `await waiter` does not catch '
               'CancelledError: a waiter that was already woken and is then '
               'cancelled leaves its connection idle without waking the next '
               'waiter (lost wake-up)', f'{ta.module.rel()}:{t.lineno}',
               sample=f'handlers: {names}')
        for h in t.handlers:
            hg = CFG(_Body(h.body), assert_raises=False,
                     raise_pred=lambda e: False)
            # on every path through the handler: either the wake-up is
            # passed on, or the test (stack non-empty and not cancelled) was
            # evaluated false; and the handler re-raises
            pass_on = [x.id for x in hg.nodes if _calls(hg, x, wake.name)]
            guard = [x.id for x in hg.nodes if x.kind == 'test'
                     and 'conn_stack' in norm(x.ast)
                     and 'cancelled()' in norm(x.ast)]
            ok = bool(pass_on) and bool(guard) and all(
                hg.edge_dominates(gd, 'T', p) for gd in guard
                for p in pass_on) and all(
                hg.always_after(gd, pass_on, exits={hg.exit, hg.raise_},
                                first_labels={'T'}) for gd in guard) and \
                hg.always_before(hg.raise_, guard) \
                and hg.exit not in hg.reachable([hg.entry])
            ctx.ob('C16.R1', f'{short(ta)}:handler-passes-wakeup-on', ok,
                   'the handler does not pass the wake-up on when the stack '
                   'is non-empty and the waiter was not cancelled, or does '
                   'not re-raise', f'{ta.module.rel()}:{h.lineno}',
                   sample='if conn_stack and not waiter.cancelled(): '
                          '_wakeup_next_waiter(); raise')
            # the dead waiter is removed from the queue
            ok = any('conn_waiters.remove(waiter)' in norm(s)
                     for s in ast.walk(h) if isinstance(s, ast.Call))
            ctx.ob('C16.R1', f'{short(ta)}:handler-dequeues', ok,
                   'a failed waiter stays in the queue (a later wake-up '
                   'would be spent on it)', f'{ta.module.rel()}:{h.lineno}',
                   sample='conn_waiters.remove(waiter)')
    # counters restored on all exits
    for f in pm.funcs:
        g = CFG(f.node, raise_pred=pm.raise_pred(f), assert_raises=False)
        for n in g.nodes:
            if n.kind == 'stmt' and isinstance(n.ast, ast.AugAssign) \
                    and isinstance(n.ast.op, ast.Add) \
                    and isinstance(n.ast.target, ast.Attribute) \
                    and n.ast.target.attr in ('conn_waiters_num',
                                              '_nacquires'):
                attr = n.ast.target.attr
                dec = [x.id for x in g.nodes if x.kind == 'stmt'
                       and isinstance(x.ast, ast.AugAssign)
                       and isinstance(x.ast.op, ast.Sub)
                       and isinstance(x.ast.target, ast.Attribute)
                       and x.ast.target.attr == attr]
                ok = bool(dec) and g.always_after(
                    n.id, dec, exits={g.exit, g.raise_}, first_labels={'n'})
                rule = 'C16.R1' if attr == 'conn_waiters_num' else 'C16.R5'
                ctx.ob(rule, f'{short(f)}:{attr}', ok,
                       f'{attr} incremented without a matching decrement on '
                       f'every exit', f'{f.module.rel()}:{n.lineno}',
                       sample=f'{attr} += 1 ... finally -= 1')
    # waiters are enqueued before awaiting
    g = CFG(ta.node, raise_pred=pm.raise_pred(ta), assert_raises=False)
    aw = [n.id for n in g.nodes if any(
        isinstance(x, ast.Await) and norm(x.value) == 'waiter'
        for e in g.node_exprs(n) for x in ast.walk(e))]
    enq = [n.id for n in g.nodes if any(
        isinstance(c.func, ast.Attribute) and c.func.attr in (
            'append', 'appendleft') and norm(c.func.value).endswith(
                '.conn_waiters') and c.args and norm(c.args[0]) == 'waiter'
        for c in g.node_calls(n))]
    ok = bool(aw) and all(g.always_before(a, enq) for a in aw)
    ctx.ob('C16.R1', f'{short(ta)}:enqueue-before-await', ok,
           'a waiter is awaited without having been put on conn_waiters',
           ta.loc, sample='conn_waiters.append(waiter) dominates await waiter')
    # Block.acquire retries while try_acquire returns None
    ba = repo.find_method(blk.qualname, 'acquire')
    ok = ba is not None and any(
        isinstance(n, ast.While) and 'try_acquire' in norm(n.test)
        and 'is None' in norm(n.test) for n in ast.walk(ba.node))
    ctx.ob('C16.R1', 'Block.acquire:retry-loop', ok,
           'Block.acquire does not retry when the woken waiter found its '
           'connection gone', ba.loc if ba else '',
           sample='while (c := await try_acquire()) is None')

    # ---- R2 ------------------------------------------------------------
    ctx.floor('C16.R2', 1)
    con = pm.connect_fn
    for t in [n for n in ast.walk(con.node) if isinstance(n, ast.Try)]:
        if not any(isinstance(x, ast.Await) and '_connect_cb' in norm(x)
                   for s in t.body for x in ast.walk(s)):
            continue
        for h in t.handlers:
            hg = CFG(_Body(h.body), assert_raises=False,
                     raise_pred=lambda e: False)
            good = [x.id for x in hg.nodes if _calls(hg, x, 'abort_waiters')
                    or _calls(hg, x, '_schedule_new_conn')]
            ok = bool(good) and hg.always_after(
                hg.entry, good, exits={hg.exit, hg.raise_})
            path = None
            if not ok:
                path = hg.describe_path(hg.path_avoiding(
                    hg.entry, {hg.exit, hg.raise_}, avoid=good))
            ctx.ob('C16.R2', f'{short(con)}:failure-reaches-waiters', ok,
                   'a connect failure can leave the handler without a retry '
                   'or abort_waiters: waiters stay blocked',
                   f'{con.module.rel()}:{h.lineno}',
                   sample='every handler path: abort_waiters(e) or '
                          '_schedule_new_conn(block)',
                   detail={'path': path})
            # abort only past the retry budget; retry for the same block
            for c in ast.walk(h):
                if isinstance(c, ast.Call) and isinstance(
                        c.func, ast.Attribute):
                    if c.func.attr == 'abort_waiters':
                        ok = norm(c.func.value) == con.params()[1] \
                            and len(c.args) == 1 and norm(c.args[0]) == h.name
                        ctx.ob('C16.R2', f'{short(con)}:abort-same-block',
                               ok, 'abort_waiters on another block or '
                               'without the error', f'{con.module.rel()}:'
                               f'{c.lineno}', sample=norm(c))
                    if c.func.attr == '_schedule_new_conn':
                        ok = bool(c.args) and norm(c.args[0]) == \
                            con.params()[1]
                        ctx.ob('C16.R2', f'{short(con)}:retry-same-block',
                               ok, 'retry scheduled for another block',
                               f'{con.module.rel()}:{c.lineno}',
                               sample=norm(c))
    ab = repo.find_method(blk.qualname, 'abort_waiters')
    if ab is None:
        raise AnalysisError('Block.abort_waiters not found')
    wl = [n for n in ast.walk(ab.node) if isinstance(n, ast.While)
          and 'conn_waiters' in norm(n.test)]
    if not wl:
        raise AnalysisError('C16.R2: abort_waiters no longer loops over '
                            'conn_waiters')
    eparam = ab.params()[1] if len(ab.params()) > 1 else 'e'
    body = ast.Module(body=wl[0].body, type_ignores=[])
    ok = any(isinstance(c, ast.Call) and norm(c.func).endswith(
        'conn_waiters.popleft') for c in ast.walk(body)) and any(
        isinstance(c, ast.Call) and isinstance(c.func, ast.Attribute)
        and c.func.attr == 'set_exception' and c.args
        and norm(c.args[0]) == eparam for c in ast.walk(body)) and not any(
        isinstance(x, (ast.Break, ast.Return)) for x in ast.walk(body))
    ctx.ob('C16.R2', 'Block.abort_waiters:all-waiters', ok,
           'abort_waiters does not deliver the error to every queued waiter',
           ab.loc, sample='while waiters: popleft; set_exception(e)')

    # ---- R3 ------------------------------------------------------------
    ctx.floor('C16.R3', 2)
    inner = repo.find_method(pm.pool.qualname, '_acquire')
    if inner is None:
        raise AnalysisError('Pool._acquire not found')
    g = CFG(inner.node, raise_pred=lambda e: False, assert_raises=False)
    waits = [n.id for n in g.nodes if any(
        isinstance(x, ast.Await) and norm(x.value) == 'block.acquire()'
        for e in g.node_exprs(n) for x in ast.walk(e))]
    if not waits:
        raise AnalysisError('C16.R3: no `await block.acquire()` in _acquire')
    # local definitions used by the implication table
    nconn_var = None
    for n in walk_no_nested(inner.node):
        if isinstance(n, ast.Assign) and norm(n.value) == \
                'block.count_conns()':
            nconn_var = norm(n.targets[0])
    if nconn_var is None:
        raise AnalysisError('C16.R3: local bound to block.count_conns() '
                            'not found')
    register_nodes = set()
    for n in g.nodes:
        if _calls(g, n, '_schedule_new_conn'):
            register_nodes.add(n.id)
        if n.kind == 'stmt' and isinstance(n.ast, ast.Assign) and norm(
                n.ast.targets[0]) == 'self._new_blocks_waitlist[block]':
            register_nodes.add(n.id)

    def implies_has_conn(test: ast.AST, outcome: str) -> bool:
        """Does `test` evaluating to `outcome` imply the block has (or is
        getting) at least one connection?"""
        t = norm(test)
        if outcome == 'F':
            # not X is false  => X true ; `A or B or C` false => all false
            if isinstance(test, ast.UnaryOp) and isinstance(test.op, ast.Not):
                return implies_has_conn(test.operand, 'T')
            if isinstance(test, ast.BoolOp) and isinstance(test.op, ast.Or):
                return any(implies_has_conn(v, 'F') for v in test.values)
            if isinstance(test, ast.Compare) and len(test.ops) == 1:
                neg = {ast.LtE: ast.Gt, ast.Lt: ast.GtE, ast.Gt: ast.LtE,
                       ast.GtE: ast.Lt}.get(type(test.ops[0]))
                if neg is not None:
                    return implies_has_conn(
                        ast.Compare(left=test.left, ops=[neg()],
                                    comparators=test.comparators), 'T')
            return False
        # outcome T
        if t == nconn_var:
            return True
        if isinstance(test, ast.BoolOp) and isinstance(test.op, ast.And):
            return any(implies_has_conn(v, 'T') for v in test.values)
        if isinstance(test, ast.Compare) and len(test.ops) == 1:
            l, r = norm(test.left), test.comparators[0]
            # queued connections are a subset of conns
            if l == 'block.count_queued_conns()' and isinstance(
                    test.ops[0], (ast.Gt, ast.GtE)) and isinstance(
                        r, ast.Constant) and isinstance(r.value, int):
                return r.value >= (0 if isinstance(test.ops[0], ast.Gt)
                                   else 1)
            if l == nconn_var and isinstance(test.ops[0], (ast.Gt, ast.GtE)) \
                    and isinstance(r, ast.Constant) \
                    and isinstance(r.value, int):
                return r.value >= (0 if isinstance(test.ops[0], ast.Gt)
                                   else 1)
        if t == 'block.count_approx_available_conns()':
            return True
        return False

    # successful steal registers a demand: `if not self._try_steal_conn(b)`
    def steal_ok(test: ast.AST, outcome: str) -> bool:
        t = norm(test)
        if t == 'not self._try_steal_conn(block)':
            return outcome == 'F'
        if t == 'self._try_steal_conn(block)':
            return outcome == 'T'
        return False

    paths = g.paths(g.entry, waits, limit=4096)
    n_paths = 0
    for path in paths:
        n_paths += 1
        registered = False
        exempt = None
        decisions = []
        for i, (nid, lab) in enumerate(path):
            if nid in register_nodes:
                registered = True
            node = g.nodes[nid]
            if node.kind == 'test' and i + 1 < len(path):
                out = path[i + 1][1]
                decisions.append(f'L{node.lineno} {norm(node.ast)[:50]} '
                                 f'= {out}')
                if steal_ok(node.ast, out):
                    registered = True
                if implies_has_conn(node.ast, out):
                    exempt = f'L{node.lineno} `{norm(node.ast)[:50]}` = {out}'
        ok = registered or exempt is not None
        ctx.ob('C16.R3',
               f'{short(inner)}:path={"/".join(d.split(" = ")[-1] for d in decisions)}',
               ok, 'a request can reach the wait on a block that may have no '
               'connection without scheduling one, stealing one or joining '
               'the waitlist: ' + '; '.join(decisions),
               f'{inner.module.rel()}:{g.nodes[path[-1][0]].lineno}',
               sample=('registers demand' if registered
                       else f'has-connection by {exempt}'),
               detail={'decisions': decisions})
    if n_paths < 3:
        raise AnalysisError('C16.R3: fewer than 3 paths to the wait')
    # the waitlist and the starving scan are consumed when connections free up
    fm = repo.find_method(pm.pool.qualname, '_find_most_starving_block')
    if fm is None:
        raise AnalysisError('_find_most_starving_block not found')
    txt = norm(fm.node)
    ok = '_new_blocks_waitlist.popitem(last=False)' in txt
    ctx.ob('C16.R3', f'{short(fm)}:consumes-waitlist-fifo', ok,
           'the waitlist is not served first-in first-out by the hand-over '
           'logic', fm.loc, sample='_new_blocks_waitlist.popitem(last=False)')
    relf = repo.find_method(pm.pool.qualname, 'release')
    ok = relf is not None and '_maybe_free_into_starving_blocks' in norm(
        relf.node)
    ctx.ob('C16.R3', 'Pool.release:offers-to-starving', ok,
           'release no longer offers the connection to starving blocks',
           relf.loc if relf else '', sample='release -> '
           '_maybe_free_into_starving_blocks')

    # ---- R4 ------------------------------------------------------------
    ctx.floor('C16.R4', 10)
    ledger_rule(repo, ctx, 'C16.R4', pm)

    # ---- R5 ------------------------------------------------------------
    ctx.floor('C16.R5', 3)
    acq = repo.find_method(pm.pool.qualname, 'acquire')
    tick = repo.find_method(pm.pool.qualname, '_tick')
    mst = repo.find_method(pm.pool.qualname, '_maybe_schedule_tick')
    if None in (acq, tick, mst, relf):
        raise AnalysisError('acquire/_tick/_maybe_schedule_tick not found')
    for f in (acq, relf):
        ok = any(isinstance(c, ast.Call) and norm(c.func) ==
                 'self._maybe_schedule_tick' for c in ast.walk(f.node))
        ctx.ob('C16.R5', f'{short(f)}:schedules-tick', ok,
               f'{f.name} no longer schedules the rebalancing tick', f.loc,
               sample='calls _maybe_schedule_tick()')
    # the request is counted before the tick is considered:
    # _maybe_schedule_tick() returns early while _nacquires is zero
    ga = CFG(acq.node, raise_pred=lambda e: False, assert_raises=False)
    incs = [n.id for n in ga.nodes if n.kind == 'stmt' and isinstance(
        n.ast, ast.AugAssign) and isinstance(n.ast.op, ast.Add)
        and norm(n.ast.target) == 'self._nacquires']
    ticks = [n.id for n in ga.nodes if any(
        norm(c.func) == 'self._maybe_schedule_tick'
        for c in ga.node_calls(n))]
    early = 'not self._nacquires' in norm(mst.node)
    ok = bool(incs) and bool(ticks) and all(
        ga.always_before(t, incs) for t in ticks)
    ctx.ob('C16.R5', 'Pool.acquire:counted-before-tick', ok or not early,
           'acquire() considers scheduling the tick before it has counted '
           'itself in _nacquires; _maybe_schedule_tick returns early when '
           'the count is zero, so a lone request at capacity never arms the '
           'rebalancing timer and can wait forever', acq.loc,
           sample='_nacquires += 1 dominates _maybe_schedule_tick()')
    # _tick reschedules itself while acquires are outstanding
    ok = False
    for n in ast.walk(tick.node):
        if isinstance(n, ast.If) and norm(n.test) == 'self._nacquires' \
                and any('_maybe_schedule_tick' in norm(s) for s in n.body):
            ok = True
    # the handle is cleared on every path before the tick can be re-armed
    gt = CFG(tick.node, raise_pred=lambda e: False, assert_raises=False)
    clr = [n.id for n in gt.nodes if n.kind == 'stmt'
           and norm(n.ast) == 'self._htick = None']
    rearm = [n.id for n in gt.nodes if any(
        norm(c.func) == 'self._maybe_schedule_tick'
        for c in gt.node_calls(n))]
    ok = ok and bool(clr) and bool(rearm) and all(
        gt.always_before(r, clr) for r in rearm)
    ctx.ob('C16.R5', f'{short(tick)}:reschedules', ok,
           '_tick does not clear its handle and reschedule itself while '
           'acquires are outstanding', tick.loc,
           sample='_htick = None; if _nacquires: _maybe_schedule_tick()')
    txt = norm(mst.node)
    ok = 'call_later' in txt and 'self._tick' in txt and \
        'self._htick = ' in txt
    ctx.ob('C16.R5', f'{short(mst)}:arms-timer', ok,
           '_maybe_schedule_tick does not arm the timer for _tick', mst.loc,
           sample='_htick = loop.call_later(..., self._tick)')

    # with a request outstanding and no tick pending, every path of
    # _maybe_schedule_tick arms the timer (no further way out)
    from ..absint import Facts, must_pass
    gm = CFG(mst.node, raise_pred=lambda e: False, assert_raises=False)
    arm = [n.id for n in gm.nodes if any(
        isinstance(c.func, ast.Attribute) and c.func.attr in (
            'call_later', 'call_at', 'call_soon')
        for c in gm.node_calls(n))]
    F = Facts({'self._nacquires': True, 'self._htick is not None': False,
               'self._htick is None': True}, mst.node)
    ok = bool(arm) and must_pass(gm, F, arm)
    ctx.ob('C16.R5', f'{short(mst)}:armed-whenever-outstanding', ok,
           '_maybe_schedule_tick can return without arming the timer '
           'although an acquire is outstanding and no tick is pending: '
           'acquire() calls it before the new block exists, so the first '
           'request for a second database at full capacity never gets a '
           'rebalancing tick and waits forever', mst.loc,
           sample='_nacquires and _htick is None => call_later(_tick)')

    _r6(repo, ctx, pm)
    _r7(repo, ctx, pm)
    _r8(repo, ctx, pm)
    _r9(repo, ctx, pm)
    _r10(repo, ctx, pm)
    _r11(repo, ctx, pm)


def _r7(repo: Repo, ctx, pm) -> None:
    """A block that is about to wait is not suppressed: suppressed blocks
    are passed over by every hand-over of the rebalancer."""
    ctx.floor('C16.R7', 2)
    acq = repo.find_method(pm.pool.qualname, '_acquire')
    ctx.saw(acq)
    g = CFG(acq.node, raise_pred=lambda e: False, assert_raises=False)
    waits = []
    for n in g.nodes:
        for c in g.node_calls(n):
            if isinstance(c.func, ast.Attribute) and c.func.attr == 'acquire' \
                    and isinstance(c.func.value, ast.Name):
                waits.append((n.id, c.func.value.id, c))
    if not waits:
        raise AnalysisError('C16.R7: waits of Pool._acquire not found')
    readers = sorted({f.name for f in pm.funcs for x in ast.walk(f.node)
                      if isinstance(x, ast.Attribute) and x.attr ==
                      'suppressed' and isinstance(x.ctx, ast.Load)})
    setters = sorted({f.name for f in pm.funcs for a in ast.walk(f.node)
                      if isinstance(a, ast.Assign) and norm(
                          a.targets[0]).endswith('.suppressed')
                      and norm(a.value) == 'True' and f.name != '__init__'})
    ctx.ob('C16.R7', 'suppressed:readers', bool(readers), '', acq.loc,
           sample=f'read by {readers}; set by {setters}', nontrivial=False)
    if not readers or not setters:
        return
    for nid, blk, c in waits:
        clr = [n.id for n in g.nodes if n.kind == 'stmt' and isinstance(
            n.ast, ast.Assign) and norm(n.ast.targets[0]) ==
            f'{blk}.suppressed' and norm(n.ast.value) == 'False']
        ok = bool(clr) and g.always_before(nid, clr)
        ctx.ob('C16.R7', f'Pool._acquire:unsuppressed-before-wait@L'
               f'{c.lineno - acq.node.lineno}', ok,
               f'Pool._acquire can wait on `{blk}` without having cleared '
               f'{blk}.suppressed: a block pruned by {setters} stays '
               f'suppressed with a live waiter, {readers} pass it over, '
               f'and the request is never handed a connection',
               acq.loc, sample=f'{blk}.suppressed = False dominates')


def _r8(repo: Repo, ctx, pm) -> None:
    """A block that gives a connection away while requests are queued on
    it registers that demand: a connection that was idle (stolen from the
    stack) implies no waiter; a connection handed back by its holder does
    not, so that hand-over must put the block on the waitlist when it is
    left with nothing."""
    from ..absint import Facts, closed_edges
    ctx.floor('C16.R8', 1)
    st = repo.find_method(pm.pool.qualname, '_schedule_transfer')
    if st is None:
        raise AnalysisError('C16.R8: _schedule_transfer not found')
    n_sites = 0
    for f, g, nid, call in _call_sites(pm, st.name):
        if len(call.args) < 2:
            continue
        k, why = _conn_provenance(pm, f, g, nid, call.args[1])
        n_sites += 1
        if k == 'stolen':
            ctx.ob('C16.R8', f'{short(f)}:transfer-of-idle@L'
                   f'{call.lineno - f.node.lineno}', True, loc=f.loc,
                   sample=f'idle connection ({why}): no waiter on '
                          f'{norm(call.args[0])}', nontrivial=False)
            continue
        frm = norm(call.args[0])
        adds = [n.id for n in g.nodes if n.kind == 'stmt' and isinstance(
            n.ast, ast.Assign) and isinstance(
            n.ast.targets[0], ast.Subscript) and norm(
            n.ast.targets[0].value).endswith('_waitlist') and norm(
            n.ast.targets[0].slice) == frm]
        F = Facts({f'{frm}.count_conns()': False,
                   f'{frm}.count_waiters()': True}, f.node)
        left = g.reachable([nid], avoid=adds,
                           avoid_edges=closed_edges(g, F))
        ok = bool(adds) and g.exit not in left
        ctx.ob('C16.R8', f'{short(f)}:transfer-of-released@L'
               f'{call.lineno - f.node.lineno}:requeues', ok,
               f'{short(f)} gives away a connection that its holder just '
               f'handed back ({why}) without lining `{frm}` up on the '
               f'waitlist when it is left with no connection and queued '
               f'requests: blocks that keep re-entering the waitlist are '
               f'served first forever and those requests never return',
               f.loc, sample=f'{frm} without connections and with '
                             f'waiters -> waitlist')
    if n_sites < 3:
        raise AnalysisError(f'C16.R8: only {n_sites} transfer sites found')


def _r6(repo: Repo, ctx, pm) -> None:
    """Demand is never dropped: a discarded connection is replaced, and the
    tick cannot take the quiet early exit while the pool is starving."""
    ctx.floor('C16.R6', 2)
    rel = repo.find_method(pm.pool.qualname, 'release')
    ctx.saw(rel)
    g = CFG(rel.node, raise_pred=pm.raise_pred(rel), assert_raises=False)
    dt = [n.id for n in g.nodes if n.kind == 'test'
          and norm(n.ast) == 'discard']
    disc = [n.id for n in g.nodes if any(
        call_name(c) == 'self._schedule_discard' or
        (call_name(c) or '').endswith('_schedule_discard')
        for c in g.node_calls(n))]
    newc = [n.id for n in g.nodes if any(
        (call_name(c) or '').endswith('_schedule_new_conn')
        for c in g.node_calls(n))]
    if not dt or not disc:
        raise AnalysisError('C16.R6: discard arm of Pool.release not found')
    ok = bool(newc) and all(
        g.always_after(d, newc, exits={g.exit}) for d in disc)
    ctx.ob('C16.R6', 'Pool.release:discard-is-replaced', ok,
           'a connection released with discard=True is scheduled for '
           'closing without a replacement being scheduled on every path: '
           'its capacity slot stays taken until the close finishes, so an '
           'acquire arriving meanwhile queues at full capacity, and when '
           'the slot frees nothing creates a connection for it (blocked '
           'forever on an empty pool)', rel.loc,
           sample='_schedule_discard -> _schedule_new_conn on every path')
    # the quiet early exit and the starving test are complementary at the
    # capacity bound: demand == capacity must reach the starving handling
    tick = repo.find_method(pm.pool.qualname, '_tick')
    ctx.saw(tick)
    starving = [a for a in ast.walk(tick.node) if isinstance(a, ast.Assign)
                and norm(a.targets[0]) == 'self._is_starving'
                and isinstance(a.value, ast.Compare)]
    if len(starving) != 1:
        raise AnalysisError('C16.R6: _is_starving assignment of _tick not '
                            'found')
    sc = starving[0].value
    need = norm(sc.left)
    bound = norm(sc.comparators[0])
    exits = [n for n in ast.walk(tick.node) if isinstance(n, ast.If)
             and isinstance(n.test, ast.Compare)
             and norm(n.test.comparators[0]) == bound
             and norm(n.test.left) != need
             and any(isinstance(x, ast.Return) for x in n.body)]
    if not exits:
        raise AnalysisError('C16.R6: early exit of _tick on the capacity '
                            'bound not found')
    for e in exits:
        pair = (type(e.test.ops[0]).__name__, type(sc.ops[0]).__name__)
        ok = pair in (('Lt', 'GtE'), ('LtE', 'Gt'))
        ctx.ob('C16.R6', f'Pool._tick:early-exit-vs-starving', ok,
               f'_tick returns early when `{norm(e.test)}` while the pool is '
               f'declared starving when `{norm(sc)}`: at demand == capacity '
               f'with every connection idle in other blocks only the '
               f'starving-mode quota reset hands connections over, so the '
               f'early exit must be strictly below the bound (requests for '
               f'new databases wait forever otherwise)',
               tick.loc, sample=f'{pair[0]} / {pair[1]}')


class _Body:
    def __init__(self, body):
        self.body = body


def _r9(repo: Repo, ctx, pm) -> None:
    """C16.R9 hand-off decisions under named assumptions (three-valued path
    facts, sa/absint.py; nothing is evaluated).

    A request on a database without a connection is served only through a
    hand-off: a release / tick decides to take a connection away from a block
    (`_should_free_conn`), and picks the block to give it to
    (`_find_most_starving_block`).  Each fact below is a situation in which
    refusing the hand-off, or handing over to nobody, strands a live request
    for ever; the decision must come out the stated way whatever the other,
    unassumed quantities are."""
    from ..absint import Facts, closed_edges, open_nodes, open_returns
    ctx.floor('C16.R9', 2)
    sf = pm.repo.find_method(pm.pool.qualname, '_should_free_conn')
    if sf is None:
        raise AnalysisError('C16.R9: _should_free_conn not found')
    ctx.saw(sf)
    g = CFG(sf.node)
    fb = sf.params()[1] if len(sf.params()) > 1 else 'from_block'
    cases = [
        ('over-quota-when-not-starving',
         {'len(self._blocks) <= 1': False, 'self._is_starving': False,
          f'{fb}.count_conns() <= {fb}.quota': False},
         'a block that holds more connections than its quota refuses to '
         'give one up because of something else (its own queue, ...): a '
         'database with no connection at all waits for as long as that '
         'condition lasts'),
        ('idle-block-when-starving',
         {'len(self._blocks) <= 1': False, 'self._is_starving': True,
          f'{fb}.count_waiters()': False},
         'in starving mode a block nobody is waiting on refuses to give up '
         'a connection: the blocks that starve are never served'),
    ]
    for name, facts, why in cases:
        fx = Facts(facts, fn_node=sf.node)
        rets = open_returns(g, fx)
        vals = sorted({norm(r.value) if r.value is not None else 'None'
                       for r in rets})
        used_all = all(k in fx.used for k in facts
                       if k != 'len(self._blocks) <= 1')
        if not rets or not used_all:
            # the function no longer consults the assumed quantities
            if not any(k in norm(sf.node) for k in ('_is_starving',)):
                raise AnalysisError(
                    f'C16.R9: _should_free_conn no longer tests the '
                    f'quantities of case {name}: cannot decide')
        ctx.ob('C16.R9', f'_should_free_conn:{name}', vals == ['True'],
               f'under {facts} _should_free_conn can return {vals}: {why}',
               sf.loc, sample=f'{name}: returns True')
    # (Two more facts were stated here at first -- the stealing loop of the
    # tick runs whenever _should_free_conn allows it, and the waitlist scan
    # never elects a block nobody waits on.  Since the tick re-examines the
    # waitlist and steals on every starving tick (repo fix e7d5708) a wrong
    # decision there is corrected a tick later: they are no longer necessary
    # for eventual service, so they are not demanded any more; seeds C16-d1
    # and C16-d3, which they were written for, became delays and are kept
    # as obsolete.)


def _r10(repo: Repo, ctx, pm) -> None:
    """C16.R10 the periodic tick is the safety net for requests nobody else
    will serve.  A database that asks while the pool is full is put on the
    waitlist and waits for the next release(); when capacity is freed in
    another way (a discarded / collected connection finishes closing, a
    connect attempt gives up) or every connection is idle, no release is
    coming.  Path facts on `_tick` (assumptions named, nothing evaluated):

    (a) with free capacity and a non-empty waitlist, every path through the
        tick that has acquirers looks at the waitlist (pops it) -- whatever
        mode the tick decides it is in;
    (b) in starving mode with a non-empty waitlist the stealing step runs on
        every such tick, not only on the one that entered starving mode
        (`_is_starving` stays set after a burst)."""
    from ..absint import Facts, must_pass
    ctx.floor('C16.R10', 2)
    tick = pm.repo.find_method(pm.pool.qualname, '_tick')
    if tick is None:
        raise AnalysisError('C16.R10: _tick not found')
    ctx.saw(tick)
    g = CFG(tick.node)
    pops = [n.id for n in g.nodes if n.kind == 'stmt' and n.ast is not None
            and any(isinstance(c, ast.Call) and norm(c.func) ==
                    'self._new_blocks_waitlist.popitem'
                    for c in ast.walk(n.ast))]
    facts = {'nblocks <= 1': False, 'len(self._blocks) <= 1': False,
             'not total_nwaiters': False, 'total_nwaiters': True,
             'self._new_blocks_waitlist': True,
             'self._cur_capacity < self._max_capacity': True,
             'self._cur_capacity >= self._max_capacity': False}
    fx = Facts(facts, fn_node=tick.node)
    ok = bool(pops) and must_pass(g, fx, pops)
    ctx.ob('C16.R10', '_tick:free-capacity-serves-the-waitlist', ok,
           'a tick that finds free capacity and a non-empty waitlist can '
           'end without looking at the waitlist'
           + ('' if pops else ' (it never does)') +
           ': a database waitlisted while the pool was momentarily full '
           'stays blocked after the slot is freed by a completed close or '
           'an abandoned connect, because no release() is coming for it',
           tick.loc, sample='while waitlist and cur < max: pop, connect')
    # (b)
    steal = [t for t in ast.walk(tick.node) if isinstance(t, ast.If) and any(
        isinstance(w, ast.While) and any(
            isinstance(c, ast.Call) and isinstance(c.func, ast.Attribute)
            and c.func.attr == 'try_steal' for c in ast.walk(w))
        for b in t.body for w in ast.walk(b))]
    inner = [t for t in steal if not any(
        o is not t and any(x is t for x in ast.walk(o)) and o in steal
        for o in steal) or True]
    # the innermost `if` that wraps the steal loops
    inner.sort(key=lambda t: -t.lineno)
    if not inner:
        raise AnalysisError('C16.R10: stealing step of _tick not found')
    gate = inner[0]
    fx = Facts({'self._new_blocks_waitlist': True}, fn_node=tick.node)
    v = fx.eval(gate.test)
    ctx.ob('C16.R10', '_tick:starving-steal-on-every-tick', v is True,
           f'the stealing step of starving mode runs under '
           f'`{norm(gate.test)[:70]}`: `_is_starving` stays set after a '
           f'burst, so requests for new databases that arrive later, when '
           f'every connection sits idle in other blocks, are never given one',
           f'{tick.module.rel()}:{gate.lineno}',
           sample='if self._new_blocks_waitlist')



def _r11(repo: Repo, ctx, pm) -> None:
    """C16.R11 a block somebody is waiting on is neither dropped nor put to
    sleep.  `_drop_block` removes the block from the pool's table (its
    queued waiters are then never looked at again; with assertions on, the
    tick dies instead -- before it serves anybody); a suppressed block is
    skipped by every hand-over decision.  Path facts, under the assumption
    that the block has a waiter:
      (a) the tick never schedules it for dropping;
      (b) `prune_inactive_connections` does not mark it suppressed."""
    from ..absint import Facts, open_nodes
    ctx.floor('C16.R11', 2)
    tick = pm.repo.find_method(pm.pool.qualname, '_tick')
    prune = pm.repo.find_method(pm.pool.qualname,
                                'prune_inactive_connections')
    if tick is None or prune is None:
        raise AnalysisError('C16.R11: _tick / prune_inactive_connections '
                            'not found')
    ctx.saw(tick)
    ctx.saw(prune)
    g = CFG(tick.node)
    drops = [n.id for n in g.nodes if n.kind == 'stmt' and n.ast is not None
             and any(isinstance(c, ast.Call) and norm(c.func) in (
                 'self._to_drop.append', 'self._drop_block')
                 and c.args and norm(c.args[0]) == 'block'
                 for c in ast.walk(n.ast))]
    if not drops:
        raise AnalysisError('C16.R11: the tick no longer schedules blocks '
                            'for dropping through _to_drop / _drop_block')
    fx = Facts({'block.count_waiters()': True}, fn_node=tick.node)
    on = open_nodes(g, fx)
    # the loop that drains _to_drop re-uses the name `block`: only the
    # scheduling sites inside the per-block scan are looked at
    sched = [d for d in drops if any(
        isinstance(c, ast.Call) and norm(c.func) == 'self._to_drop.append'
        for c in ast.walk(g.nodes[d].ast))] or drops
    ok = not (set(sched) & on)
    ctx.ob('C16.R11', '_tick:never-drops-a-block-with-waiters', ok,
           'the tick can schedule a block for dropping while a request is '
           'queued on it (a suppressed block with a waiter takes the '
           '"nothing wants it" branch): _drop_block then fails its '
           'assertion and the tick aborts before it serves the waitlist or '
           'rebalances -- for every database, on every tick -- or, with '
           'assertions off, removes the block with its waiter still queued',
           tick.loc, sample='under count_waiters(): no _to_drop.append')
    g2 = CFG(prune.node)
    sup = [n.id for n in g2.nodes if n.kind == 'stmt' and isinstance(
        n.ast, ast.Assign) and any(isinstance(t, ast.Attribute)
                                   and t.attr == 'suppressed'
                                   for t in n.ast.targets)
        and norm(n.ast.value) == 'True']
    if not sup:
        raise AnalysisError('C16.R11: prune_inactive_connections no longer '
                            'sets `suppressed`')
    fx2 = Facts({'block.count_waiters()': True}, fn_node=prune.node)
    on2 = open_nodes(g2, fx2)
    ok = not (set(sup) & on2)
    ctx.ob('C16.R11', 'prune_inactive_connections:never-suppresses-a-'
           'block-with-waiters', ok,
           'prune_inactive_connections marks a block suppressed although a '
           'request is queued on it: the queued request arrived before the '
           'mark, so nothing un-suppresses the block, and every hand-over '
           'decision (and the tick) treats the database as inactive',
           prune.loc, sample='under count_waiters(): no suppressed = True')
