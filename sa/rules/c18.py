"""C18 — quoted literals and identifiers cannot break out of their quotes.

  R1 writer escape table ⊆ reader table, same meaning (strings and bytes)
  R2 raw pass-through ∩ lexer-prohibited set = ∅
  R3 delimiter discipline of every quoting function
  R4 sinks go through the quoting functions
"""
from __future__ import annotations

import ast
import os
from typing import Dict, List, Optional, Set, Tuple

from .. import charclass as CC
from ..cfg import CFG
from ..model import (AnalysisError, FuncInfo, Repo, call_name, dotted, norm,
                     walk_no_nested)

QUOTE = 'edb.edgeql.quote'
QLCG = 'edb.edgeql.codegen'
PGC = 'edb.pgsql.common'
PGCG = 'edb.pgsql.codegen'

NUL_NOTE = ('U+0000 cannot be expressed in an EdgeQL string literal in any '
            'form, so no parsed program contains it')


def _rust(repo: Repo, rel: str) -> str:
    p = os.path.join(repo.root, rel)
    if rel in repo.overlay:
        return repo.overlay[rel]
    try:
        with open(p, encoding='utf-8') as f:
            return f.read()
    except OSError:
        raise AnalysisError(f'anchor {rel} not found')


def replace_chain(fn: FuncInfo) -> List[Tuple[str, str]]:
    """Ordered (old, new) pairs of `x = x.replace(a, b)` statements and
    chained `.replace(a, b).replace(c, d)` calls with constant args."""
    out = []
    for n in walk_no_nested(fn.node):
        if isinstance(n, ast.Call) and isinstance(n.func, ast.Attribute) \
                and n.func.attr == 'replace' and len(n.args) == 2 \
                and all(isinstance(a, ast.Constant) for a in n.args):
            out.append((n.lineno, n.col_offset, n.args[0].value,
                        n.args[1].value))
    # table-driven form: `for a, b in PAIRS: x = x.replace(a, b)` with PAIRS
    # a (module-level) display of constant pairs, applied in table order
    for lp in walk_no_nested(fn.node):
        if not (isinstance(lp, ast.For) and isinstance(
                lp.target, ast.Tuple) and len(lp.target.elts) == 2
                and all(isinstance(t, ast.Name) for t in lp.target.elts)):
            continue
        ta, tb = lp.target.elts[0].id, lp.target.elts[1].id
        uses = [c for st in lp.body for c in ast.walk(st)
                if isinstance(c, ast.Call) and isinstance(
                    c.func, ast.Attribute) and c.func.attr == 'replace'
                and len(c.args) == 2 and norm(c.args[0]) == ta
                and norm(c.args[1]) == tb]
        if not uses:
            continue
        tbl = lp.iter
        if isinstance(tbl, ast.Name):
            tbl = fn.module.assigns.get(tbl.id)
        if isinstance(tbl, (ast.Tuple, ast.List)) and tbl.elts and all(
                isinstance(e, (ast.Tuple, ast.List)) and len(e.elts) == 2
                and all(isinstance(x, ast.Constant) for x in e.elts)
                for e in tbl.elts):
            for k, e in enumerate(tbl.elts):
                out.append((lp.lineno, k, e.elts[0].value, e.elts[1].value))
    out.sort()
    pairs = [(a, b) for _, _, a, b in out]
    # one-pass form: x.translate(TABLE) with TABLE = str.maketrans({..}) at
    # module level.  All pairs apply simultaneously, so there is no ordering
    # hazard; the backslash pair is listed first to say so.
    for n in walk_no_nested(fn.node):
        if isinstance(n, ast.Call) and isinstance(n.func, ast.Attribute) \
                and n.func.attr == 'translate' and len(n.args) == 1:
            t = n.args[0]
            v = fn.module.assigns.get(t.id) if isinstance(t, ast.Name) \
                else t
            if isinstance(v, ast.Call) and norm(v.func) == 'str.maketrans' \
                    and len(v.args) == 1 and isinstance(v.args[0], ast.Dict):
                tp = []
                for k, w in zip(v.args[0].keys, v.args[0].values):
                    if isinstance(k, ast.Constant) and isinstance(
                            w, ast.Constant) and isinstance(k.value, str) \
                            and isinstance(w.value, str):
                        tp.append((k.value, w.value))
                tp.sort(key=lambda kv: kv[0] != '\\')
                pairs = tp + pairs
    return pairs


def regex_subs(repo: Repo, fn: FuncInfo):
    """(CharSet, replacement-kind) for `REGEX.sub(callable_or_str, x)` calls
    where REGEX is a module-level compiled regex."""
    out = []
    for n in walk_no_nested(fn.node):
        if isinstance(n, ast.Call) and isinstance(n.func, ast.Attribute) \
                and n.func.attr == 'sub' and isinstance(n.func.value,
                                                        ast.Name):
            rx = module_regex(fn.module, n.func.value.id)
            if rx is not None:
                out.append((rx, n))
    return out


def module_regex(m, name: str) -> Optional[CC.CharSet]:
    v = m.assigns.get(name)
    if isinstance(v, ast.Call) and norm(v.func) == 're.compile' and v.args:
        pat = _const_concat(v.args[0])
        if pat is not None:
            return CC.from_regex_class(pat)
    return None


def _const_concat(e):
    """Value of a constant / implicit concatenation / JoinedStr of consts."""
    if isinstance(e, ast.Constant) and isinstance(e.value, (str, bytes)):
        return e.value
    return None


def run(repo: Repo, ctx) -> None:
    ctx.explanation = (
        'Decides for the quoting layer: R1 every escape sequence the EdgeQL '
        'string/bytes writers can emit is accepted by the Rust unquote '
        'functions with the same value (escape tables extracted from both '
        'sides, incl. the numeric guards of \\x / \\u); R2 the code points '
        'the writers pass through raw do not meet the lexer\'s prohibited '
        'set (character-class algebra); R3 each quoting function '
        'neutralises its own delimiter (doubling, or backslash escape with '
        'the backslash handled first), the dollar-quote marker search '
        'covers an occurrence straddling the end of the text, bytea goes '
        'through hex, identifier quoting consults the keyword tables; R4 '
        'the code generators\' constant/identifier sinks call the quoting '
        'functions. PostgreSQL\'s full lexical rules and hand-rolled quoting '
        'inside SQL f-strings are NOT decided.')
    ctx.not_decided = ['PostgreSQL lexing beyond delimiter doubling',
                       'quote_e_literal', 'hand-rolled quotes in SQL '
                       'f-strings of dbops/delta/schemamech']
    ctx.assumptions = [NUL_NOTE, 'standard_conforming_strings=on for SQL '
                       'string literals']

    strings_rs = _rust(repo, 'edb/edgeql-parser/src/helpers/strings.rs')
    bytes_rs = _rust(repo, 'edb/edgeql-parser/src/helpers/bytes.rs')
    tok_rs = _rust(repo, 'edb/edgeql-parser/src/tokenizer.rs')
    try:
        rd = CC.rust_escape_table(CC.rust_fn_body(strings_rs,
                                                  '_unquote_string'))
        rdb = CC.rust_escape_table(CC.rust_fn_body(bytes_rs,
                                                   'unquote_bytes_inner'))
        prohibited = CC.rust_prohibited(
            CC.rust_fn_body(tok_rs, 'check_prohibited'), True)
    except KeyError as e:
        raise AnalysisError(f'Rust anchor function {e} not found')
    if len(rd['map']) < 4 or not rd['identity'] or rd['x'] is None \
            or rd['u'] is None:
        raise AnalysisError(f'C18: could not extract the string escape '
                            f'arms of _unquote_string: {rd}')
    if len(rdb['map']) < 4 or rdb['x'] is None:
        raise AnalysisError('C18: could not extract the bytes escape arms')
    if prohibited.size() < 5:
        raise AnalysisError('C18: check_prohibited set not extracted')

    def reader_accepts(table, seq: str, meaning: int) -> Optional[str]:
        """None if `\\<seq>` decodes to `meaning`, else why not."""
        c = ord(seq[0])
        if c in table['identity'] and len(seq) == 1:
            return None if c == meaning else f'decodes to U+{c:04X}'
        if c in table['map'] and len(seq) == 1:
            v = table['map'][c]
            return None if v == meaning else f'decodes to U+{v:04X}'
        return f'\\{seq} is not an escape the reader knows'

    # ---- R1 / R2 for escape_string ------------------------------------
    ctx.floor('C18.R1', 12)
    ctx.floor('C18.R2', 3)
    es = repo.func(f'{QUOTE}.escape_string')
    ctx.saw(es)
    chain = replace_chain(es)
    if len(chain) < 3:
        raise AnalysisError('C18: escape_string replace chain not found')
    escaped_raw = CC.CharSet()
    for old, new in chain:
        if len(old) != 1 or not new.startswith('\\'):
            ctx.fail('C18.R1', f'escape_string:replace={old!r}',
                     f'replace({old!r}, {new!r}) is not a single-character '
                     f'backslash escape', es.loc)
            continue
        why = reader_accepts(rd, new[1:], ord(old))
        ctx.ob('C18.R1', f'escape_string:escape=U+{ord(old):04X}',
               why is None,
               f'escape_string writes {new!r} for U+{ord(old):04X}, but the '
               f'lexer: {why}', es.loc, sample=f'{old!r} -> {new!r}')
        escaped_raw = escaped_raw | CC.CharSet.of(ord(old))
    # \uXXXX substitution(s)
    usub = CC.CharSet()
    for cs, call in regex_subs(repo, es):
        repl = norm(call.args[0])
        ok_form = "'\\\\u%04x' % ord(" in repl or "'\\\\u{:04x}'" in repl \
            or '\\\\u' in repl and '04x' in repl
        if not ok_form:
            ctx.fail('C18.R1', 'escape_string:sub-form',
                     f'unrecognised substitution {repl}', es.loc)
            continue
        usub = usub | cs
        bad = cs & CC.CharSet([(0x10000, CC.MAXCP)])
        sur = cs & CC.CharSet([(0xD800, 0xDFFF)])
        ctx.ob('C18.R1', 'escape_string:\\u-range', not bad and not sur
               and rd['u'] == 4,
               f'\\uXXXX written for code points {(bad | sur).show()} that '
               f'do not fit 4 hex digits / are surrogates (reader takes '
               f'{rd["u"]} digits)', es.loc,
               sample=f'\\u%04x for {cs.show()}')
    # backslash first
    firsts = [i for i, (o, n) in enumerate(chain) if o == '\\']
    ok = firsts == [0]
    ctx.ob('C18.R3', 'escape_string:backslash-first', ok,
           'the backslash is not escaped before the other characters: the '
           'backslashes introduced by later escapes would be doubled, or '
           'a literal backslash would combine with the next character',
           es.loc, sample=[o for o, _ in chain])
    # any regex substitution that introduces backslashes must come after
    # the backslash replace as well (it does if it is after the chain)
    for cs, call in regex_subs(repo, es):
        last_replace = max(n.lineno for n in walk_no_nested(es.node)
                           if isinstance(n, ast.Call) and isinstance(
                               n.func, ast.Attribute)
                           and n.func.attr in ('replace', 'translate'))
        ctx.ob('C18.R3', 'escape_string:sub-after-backslash',
               call.lineno > last_replace and 0x5C not in cs,
               'the \\u substitution runs before the backslash escape (its '
               'backslashes would be doubled)', es.loc,
               sample='regex sub after the replace chain')
    raw_es = (escaped_raw | usub).complement()
    leak = raw_es & prohibited
    leak_nonnul = leak - CC.CharSet.of(0)
    ctx.ob('C18.R2', 'escape_string:raw-vs-prohibited', not leak_nonnul,
           f'escape_string passes {leak_nonnul.show()} through raw; the '
           f'lexer rejects these unescaped inside a string literal',
           es.loc, sample=f'raw set ∩ prohibited = {leak_nonnul.show()}')
    # the delimiter itself is escaped
    ctx.ob('C18.R3', 'escape_string:escapes-single-quote',
           0x27 in escaped_raw, 'escape_string does not escape the single '
           'quote', es.loc, sample="' -> \\'")

    # ---- visit_Constant ------------------------------------------------------
    gen = repo.cls(f'{QLCG}.EdgeQLSourceGenerator')
    vc = repo.find_method(gen.qualname, 'visit_Constant')
    if vc is None:
        raise AnalysisError('visit_Constant not found')
    ctx.saw(vc)
    cgm = repo.module(QLCG)
    guard_tests = [n for n in ast.walk(vc.node) if isinstance(n, ast.If)
                   and isinstance(n.test, ast.UnaryOp)
                   and '.search(node.value)' in norm(n.test)]
    if len(guard_tests) != 1:
        raise AnalysisError('C18.R2: visit_Constant raw-form guard not found')
    gname = norm(guard_tests[0].test.operand.func.value)
    gset = module_regex(cgm, gname)
    if gset is None:
        raise AnalysisError(f'C18.R2: regex {gname} not resolvable')
    raw_vc = gset.complement()
    leak = raw_vc & prohibited
    ctx.ob('C18.R2', 'visit_Constant:raw-vs-prohibited', not leak,
           f'visit_Constant writes strings containing {leak.show()} in a raw '
           f'(unescaped) quoted form; the lexer rejects these characters '
           f'unescaped', vc.loc, sample=f'guard {gname}: raw ∩ prohibited = '
                                        f'{leak.show()}')
    # no raw form is written when the guard found such a character (path
    # fact: assume the search matched; no open node writes the value as is
    # or through the dollar-quoted form, which escapes nothing)
    from ..absint import Facts, open_nodes
    gvc = CFG(vc.node)
    kind_tests = [n.test for n in ast.walk(vc.node) if isinstance(n, ast.If)
                  and isinstance(n.test, ast.Compare)
                  and norm(n.test).endswith('ConstantKind.STRING')]
    if not kind_tests:
        raise AnalysisError('C18.R2: visit_Constant string arm not found')
    Fvc = Facts({norm(guard_tests[0].test.operand): True,
                 norm(kind_tests[0]): True}, vc.node)
    # whether one given character occurs in the value says nothing about
    # whether some character of a larger class does (both are existential
    # over a string that can hold both)
    Fvc.independent = lambda at: (
        isinstance(at, ast.Compare) and len(at.ops) == 1
        and isinstance(at.ops[0], (ast.In, ast.NotIn))
        and isinstance(at.left, ast.Constant)
        and isinstance(at.left.value, str) and len(at.left.value) == 1
        and gset.size() > 1)
    on_vc = open_nodes(gvc, Fvc)

    def _raw_write(c: ast.Call) -> bool:
        if norm(c.func) != 'self.write':
            return False
        for a in c.args:
            if norm(a) == 'node.value':
                return True
            if isinstance(a, ast.Call) and 'dollar_quote' in (
                    call_name(a) or '').split('.')[-1]:
                return True
        return False
    raw_nodes = [i for i in sorted(on_vc)
                 if any(_raw_write(c) for c in gvc.node_calls(gvc.nodes[i]))]
    all_raw = [x.id for x in gvc.nodes
               if any(_raw_write(c) for c in gvc.node_calls(x))]
    if len(all_raw) < 4:
        raise AnalysisError('C18.R2: raw writes of visit_Constant not found')
    ctx.ob('C18.R2', 'visit_Constant:raw-only-under-guard',
           not raw_nodes and bool(Fvc.used),
           f'visit_Constant writes a string in a raw form (as is between '
           f'delimiters, or dollar-quoted) at line(s) '
           f'{[gvc.nodes[i].lineno for i in raw_nodes]} although {gname} '
           f'found a character the lexer rejects unescaped: raw forms '
           f'escape nothing', vc.loc,
           sample=f'under {gname}.search(value): only quote_literal')
    # raw writes are dominated by `d not in node.value` for the same d, and
    # the candidate delimiters are single characters
    for lp in [n for n in ast.walk(guard_tests[0]) if isinstance(n, ast.For)]:
        ds = [e.value for e in lp.iter.elts] if isinstance(
            lp.iter, (ast.Tuple, ast.List)) else None
        if ds is None:
            raise AnalysisError('C18.R3: delimiter tuple not literal')
        d = norm(lp.target)
        ok = all(isinstance(x, str) and len(x) == 1 for x in ds)
        ctx.ob('C18.R3', 'visit_Constant:single-char-delimiters', ok,
               f'raw forms use multi-character delimiter(s) {ds}: `d not in '
               f'value` misses an occurrence that straddles the end of the '
               f'value', vc.loc, sample=ds)
        conds = [n for n in lp.body if isinstance(n, ast.If)
                 and norm(n.test) == f'{d} not in node.value']
        writes = [c for c in ast.walk(lp) if isinstance(c, ast.Call)
                  and norm(c.func) == 'self.write'
                  and any(norm(a) == 'node.value' for a in c.args)]
        inside = {id(c) for n in conds for c in ast.walk(n)}
        ok = bool(writes) and all(id(w) in inside for w in writes) and all(
            [norm(a) for a in w.args][-3:] == [d, 'node.value', d]
            for w in writes)
        ctx.ob('C18.R3', 'visit_Constant:delimiter-absent', ok,
               'a raw quoted form is written without checking that the '
               'delimiter does not occur in the value (or with a different '
               'delimiter than the one checked)', vc.loc,
               sample=f'if {d} not in node.value: write({d}, value, {d})')
        # a value with a backslash must use the r-prefixed form
        for w in writes:
            pre = [norm(a) for a in w.args][:-3]
            under_bs = any(isinstance(n, ast.If) and norm(n.test) ==
                           "'\\\\' in node.value" and id(w) in
                           {id(x) for s in n.body for x in ast.walk(s)}
                           for n in ast.walk(lp))
            ok = (pre == ["'r'"]) == under_bs
            ctx.ob('C18.R3', f'visit_Constant:raw-prefix@{len(pre)}', ok,
                   'a value containing a backslash is written in a '
                   'non-raw quoted form (the lexer would process escapes), '
                   'or the r prefix is used without need', vc.loc,
                   sample='r-prefix iff backslash in value')
    # the fallback(s) go through the quoting functions
    tail_writes = [c for c in ast.walk(vc.node) if isinstance(c, ast.Call)
                   and norm(c.func) == 'self.write' and len(c.args) == 1
                   and 'node.value' in norm(c.args[0])
                   and norm(c.args[0]) != 'node.value']
    for w in tail_writes:
        a = w.args[0]
        ok = isinstance(a, ast.Call) and repo.resolve_expr(cgm, a.func) in (
            f'{QUOTE}.quote_literal', f'{QUOTE}.dollar_quote_literal')
        ctx.ob('C18.R4', f'visit_Constant:fallback={norm(a.func) if isinstance(a, ast.Call) else norm(a)}',
               ok, f'string constant written through `{norm(a)[:50]}`, not '
               f'an EdgeQL quoting function (e.g. repr() emits \\x80-\\x9f '
               f'which the lexer rejects)', f'{vc.module.rel()}:{w.lineno}',
               sample=norm(a)[:60])
    if not tail_writes:
        raise AnalysisError('C18.R4: visit_Constant fallback writes not '
                            'found')

    # ---- bytes ------------------------------------------------------------------
    vb = repo.find_method(gen.qualname, 'visit_BytesConstant')
    be = repo.func(f'{QLCG}._bytes_escape')
    ctx.saw(vb)
    ctx.saw(be)
    bset = module_regex(cgm, '_BYTES_ESCAPE_RE')
    esc_tbl = cgm.assigns.get('_ESCAPES')
    if bset is None or not isinstance(esc_tbl, ast.Dict):
        raise AnalysisError('C18: _BYTES_ESCAPE_RE/_ESCAPES not found')
    named = {}
    for k, v in zip(esc_tbl.keys, esc_tbl.values):
        named[k.value] = v.value
    for k, v in sorted(named.items()):
        why = None
        if not (v.startswith(b'\\') and len(v) == 2):
            why = 'not a single-character backslash escape'
        else:
            why = reader_accepts(rdb, v[1:].decode('latin1'), k[0])
        ctx.ob('C18.R1', f'_ESCAPES:byte={k[0]:02x}', why is None,
               f'bytes printer writes {v!r} for byte {k[0]:#04x}: {why}',
               cgm.rel(), sample=f'{k!r} -> {v!r}')
        ctx.ob('C18.R1', f'_ESCAPES:in-class={k[0]:02x}', k[0] in bset,
               f'byte {k[0]:#04x} has a named escape but is not matched by '
               f'_BYTES_ESCAPE_RE, so it is never applied', cgm.rel(),
               sample='in class', nontrivial=False)
    # everything else in the class is written as \xNN (any NN accepted)
    txt = norm(be.node)
    ok = "b'\\\\x%02x' % char[0]" in txt and rdb['x'] == (0xFF, False)
    ctx.ob('C18.R1', '_bytes_escape:\\x-fallback', ok,
           'bytes without a named escape are not written as \\xNN, or the '
           'bytes reader restricts \\xNN', be.loc, sample='\\x%02x')
    # raw bytes: printable ASCII without quote and backslash
    raw_b = bset.complement(0xFF)
    need = CC.CharSet.of(0x27, 0x5C) | CC.CharSet([(0, 0x1F), (0x7F, 0xFF)])
    ctx.ob('C18.R2', 'visit_BytesConstant:raw-bytes', not (raw_b & need),
           f'bytes {(raw_b & need).show()} are written raw inside b\'...\' '
           f'(delimiter, backslash, control or non-ASCII)', cgm.rel(),
           sample=f'raw bytes = {raw_b.show()}')
    txt = norm(vb.node)
    ok = '_BYTES_ESCAPE_RE.sub(_bytes_escape, node.value)' in txt and \
        '"b\'"' in txt
    ctx.ob('C18.R4', 'visit_BytesConstant:uses-escape', ok,
           'bytes constant is not passed through _BYTES_ESCAPE_RE/'
           '_bytes_escape inside b\'...\'', vb.loc,
           sample="b' + sub(_bytes_escape, value) + '")

    # ---- R3 delimiter discipline ----------------------------------------------
    ctx.floor('C18.R3', 10)

    def wrap_shape(fn: FuncInfo):
        """return (delim, inner expr) for `D + f(s) + D`."""
        rets = [n for n in walk_no_nested(fn.node)
                if isinstance(n, ast.Return)]
        if len(rets) != 1:
            return None
        v = rets[0].value
        if isinstance(v, ast.BinOp) and isinstance(v.op, ast.Add) \
                and isinstance(v.left, ast.BinOp) and isinstance(
                    v.left.op, ast.Add):
            l, mid, r = v.left.left, v.left.right, v.right
            if isinstance(l, ast.Constant) and isinstance(r, ast.Constant) \
                    and l.value == r.value:
                return l.value, mid
        return None

    for qn, delim, mode in ((f'{QUOTE}.quote_literal', "'", 'escape'),
                            (f'{QUOTE}._quote_ident', '`', 'double'),
                            (f'{PGC}.quote_literal', "'", 'double'),
                            (f'{PGC}._quote_ident', '"', 'double')):
        fn = repo.func(qn)
        ctx.saw(fn)
        ws = wrap_shape(fn)
        ok = ws is not None and ws[0] == delim
        why = ''
        if ok:
            inner = ws[1]
            if mode == 'double':
                ok = isinstance(inner, ast.Call) and isinstance(
                    inner.func, ast.Attribute) and inner.func.attr == \
                    'replace' and [getattr(a, 'value', None)
                                   for a in inner.args] == [delim, delim * 2]
                why = f'inner is {norm(inner)}'
            else:
                ok = isinstance(inner, ast.Call) and repo.resolve_expr(
                    fn.module, inner.func) == f'{QUOTE}.escape_string'
                why = f'inner is {norm(inner)}'
        ctx.ob('C18.R3', f'{qn.split("edb.")[-1]}:neutralises-delimiter', ok,
               f'{qn} does not return {delim!r} + <text with the delimiter '
               f'{"doubled" if mode == "double" else "escaped"}> + {delim!r} '
               f'({why})', fn.loc, sample=f'{delim} + {mode} + {delim}')
    dq = repo.func(f'{QUOTE}.dollar_quote_literal')
    ctx.saw(dq)
    loops = [n for n in walk_no_nested(dq.node) if isinstance(n, ast.While)]
    rets = [n for n in walk_no_nested(dq.node) if isinstance(n, ast.Return)]
    if len(loops) != 1 or len(rets) != 1:
        raise AnalysisError('C18.R3: dollar_quote_literal shape changed')
    t = norm(loops[0].test)
    text = dq.params()[0]
    ok, why = _marker_search_ok(dq, loops[0].test, text)
    if ok is None:
        raise AnalysisError(f'C18.R3: unrecognised marker search `{t}` in '
                            f'dollar_quote_literal: cannot decide')
    ctx.ob('C18.R3', 'dollar_quote_literal:marker-search', ok, why, dq.loc,
           sample=t)
    ok = norm(rets[0].value) == f'quote + {text} + quote'
    ctx.ob('C18.R3', 'dollar_quote_literal:returns-loop-marker', ok,
           'the literal is not wrapped in the marker the loop settled on',
           dq.loc, sample=norm(rets[0].value))
    # the marker stays a valid dollar quote: $<hex reversed>$ never starts
    # with a digit
    gen_ok = any(isinstance(n, ast.Assign) and "'${:x}$'.format(qq)[::-1]"
                 in norm(n.value) for n in ast.walk(loops[0])) and any(
        isinstance(n, ast.If) and norm(n.test) == 'qq % 16 < 10'
        for n in ast.walk(loops[0]))
    ctx.ob('C18.R3', 'dollar_quote_literal:marker-form', gen_ok,
           'generated markers may start with a digit (the lexer rejects '
           'such dollar quotes)', dq.loc,
           sample='reversed hex whose last digit is a-f')
    bq = repo.func(f'{PGC}.quote_bytea_literal')
    txt = norm(bq.node)
    ok = "binascii.b2a_hex(data).decode('ascii')" in txt and \
        "'\\\\x{b}'::bytea" in txt.replace('"', "'") or \
        ('binascii.b2a_hex(data)' in txt and '::bytea' in txt)
    ctx.ob('C18.R3', 'pgsql.common.quote_bytea_literal:hex', ok,
           'bytea literal payload is not the hex encoding of the data',
           bq.loc, sample="'\\x<hex>'::bytea")
    # ... on every path: what any return interpolates comes from a hex
    # encoding.  bytea input syntax gives the backslash a meaning, and the
    # string quoting function passes it through (it doubles quotes only)
    HEX = ('b2a_hex', 'hexlify', 'hex')
    bdefs = {}
    for st in ast.walk(bq.node):
        if isinstance(st, ast.Assign) and len(st.targets) == 1 and \
                isinstance(st.targets[0], ast.Name):
            bdefs.setdefault(st.targets[0].id, []).append(st.value)

    def _hexed(e, depth=4) -> bool:
        if isinstance(e, ast.Call):
            nm = (call_name(e) or norm(e.func)).split('.')[-1]
            if nm in HEX:
                return True
            if nm in ('decode', 'lower', 'upper') and isinstance(
                    e.func, ast.Attribute):
                return _hexed(e.func.value, depth)
            return False
        if isinstance(e, ast.Name) and depth and e.id in bdefs:
            return all(_hexed(v, depth - 1) for v in bdefs[e.id])
        if isinstance(e, ast.FormattedValue):
            return _hexed(e.value, depth)
        return False
    bparam = bq.params()[0]
    n_ret = 0
    for r in ast.walk(bq.node):
        if not isinstance(r, ast.Return) or r.value is None:
            continue
        parts = []
        for x in ast.walk(r.value):
            if isinstance(x, ast.FormattedValue):
                parts.append(x.value)
            elif isinstance(x, ast.BinOp) and isinstance(x.op, ast.Add):
                parts += [y for y in (x.left, x.right)
                          if not isinstance(y, (ast.Constant, ast.BinOp,
                                                ast.JoinedStr))]
        if isinstance(r.value, (ast.Call, ast.Name)):
            parts.append(r.value)
        parts = [p_ for p_ in parts if not isinstance(p_, ast.Constant)]
        if not parts:
            continue
        n_ret += 1
        bad = [p_ for p_ in parts if not _hexed(p_)]

        def _expand(e, depth=4):
            yield e
            for x in ast.walk(e):
                if isinstance(x, ast.Name) and depth and x.id in bdefs:
                    for v in bdefs[x.id]:
                        yield from _expand(v, depth - 1)
        for p_ in bad:
            for e in _expand(p_):
                for c in ast.walk(e):
                    if isinstance(c, ast.Call) and (
                            call_name(c) or norm(c.func)).split('.')[-1] \
                            not in ('quote_literal', 'decode', 'str',
                                    'format', 'isascii', 'isprintable'):
                        raise AnalysisError(
                            f'C18.R3: quote_bytea_literal builds its '
                            f'payload through `{norm(c)[:50]}`, neither a '
                            f'hex encoding nor the string quoting '
                            f'function: cannot decide what it escapes')
        ctx.ob('C18.R3', f'pgsql.common.quote_bytea_literal:hex-only@{n_ret}',
               not bad,
               f'quote_bytea_literal returns a literal whose payload '
               f'`{norm(bad[0])[:50] if bad else ""}` is not a hex encoding '
               f'of the data: a backslash in the data reaches the bytea '
               f'input parser, which reads it as an escape (quote_literal '
               f'only doubles quotes)', f'{bq.module.rel()}:{r.lineno}',
               sample="every interpolated part is b2a_hex(data)")
    if n_ret < 1:
        raise AnalysisError('C18.R3: quote_bytea_literal has no '
                            'interpolating return')
    # identifier quoting decisions
    nq = repo.func(f'{QUOTE}.needs_quoting')
    sparam = nq.params()[0]
    lows = _lowercased_names(nq, sparam)
    mem = [n for n in ast.walk(nq.node) if isinstance(n, ast.Compare)
           and len(n.ops) == 1 and isinstance(n.ops[0], ast.In)
           and 'keywords.by_type[keywords.RESERVED_KEYWORD]'
           in norm(n.comparators[0])]
    ok = bool(mem) and all(_is_lowercased(n.left, lows) for n in mem)
    ctx.ob('C18.R3', 'edgeql.quote.needs_quoting:reserved-lookup-lowercased',
           ok, 'the reserved-keyword lookup is not applied to the '
           'lower-cased identifier: the lexer matches keywords '
           'case-insensitively, so `Select` / `ALTER` would be emitted bare '
           'and read back as keywords', nq.loc,
           sample=[norm(n)[:70] for n in mem][:1])
    fm = [n for n in ast.walk(nq.node) if isinstance(n, ast.Call)
          and isinstance(n.func, ast.Attribute)
          and n.func.attr == 'fullmatch' and n.args
          and norm(n.args[0]) == sparam]
    ctx.ob('C18.R3', 'edgeql.quote.needs_quoting:identifier-shape', bool(fm),
           'needs_quoting no longer tests the whole string against the '
           'identifier pattern', nq.loc, sample='<ident regex>.fullmatch')
    ok = any('allow_reserved' in norm(n) for n in ast.walk(nq.node)
             if isinstance(n, (ast.BoolOp, ast.If, ast.UnaryOp)))
    ctx.ob('C18.R3', 'edgeql.quote.needs_quoting:reserved-unless-allowed',
           ok and bool(mem), 'reserved keywords are no longer quoted',
           nq.loc, sample='not allow_reserved and is_reserved')
    kwm = repo.module('edb.edgeql.parser.grammar.keywords')
    src_ok = 'ql_parser.current_reserved_keywords' in norm(kwm.tree) and \
        kwm.imports.get('ql_parser') == 'edb._edgeql_parser'
    ctx.ob('C18.R3', 'edgeql.keywords:single-source', src_ok,
           'the reserved-keyword table is no longer taken from the lexer\'s '
           'own exported sets', kwm.rel(),
           sample='reserved = ql_parser.future | ql_parser.current')
    qi = repo.func(f'{QUOTE}.quote_ident')
    ok = 'if force or needs_quoting(string, allow_reserved, allow_num)' in \
        norm(qi.node) and '_quote_ident(string)' in norm(qi.node)
    ctx.ob('C18.R3', 'edgeql.quote.quote_ident:uses-decision', ok,
           'quote_ident does not quote when needs_quoting says so', qi.loc,
           sample='force or needs_quoting -> _quote_ident')
    # every keyword class the grammar does not take for a plain Identifier
    # counts as reserved in the quoting decision
    gx = repo.modules.get('edb.edgeql.parser.grammar.expressions')
    kwm = repo.modules.get('edb.edgeql.parser.grammar.keywords')
    if gx is not None and kwm is not None:
        kwclass_type = {}
        for cn, ci in gx.classes.items():
            for k in ci.node.keywords:
                if k.arg == 'type' and norm(k.value).startswith('keywords.'):
                    kwclass_type[cn] = norm(k.value).split('.')[-1]
        ident = gx.classes.get('Identifier')
        bare = set()
        if ident is not None:
            for mname in ident.methods:
                if mname.startswith('reduce_') and mname[7:] in kwclass_type:
                    bare.add(kwclass_type[mname[7:]])
        populated = set()
        for c in ast.walk(kwm.tree):
            if isinstance(c, ast.DictComp) and isinstance(
                    c.value, ast.Tuple) and len(c.value.elts) == 2:
                populated.add(norm(c.value.elts[1]))
        enq = repo.func(f'{QUOTE}.needs_quoting')
        consulted = {norm(x.slice).split('.')[-1]
                     for x in ast.walk(enq.node)
                     if isinstance(x, ast.Subscript)
                     and norm(x.value).endswith('by_type')}
        if not populated or not bare or not consulted:
            raise AnalysisError('C18.R3: keyword classes of the grammar / '
                                'of needs_quoting not readable')
        for kt in sorted(populated - bare):
            ctx.ob('C18.R3', f'edgeql.quote.needs_quoting:keyword-class={kt}',
                   kt in consulted,
                   f'the grammar takes a {kt} for a keyword token and its '
                   f'Identifier rule does not accept that class, but '
                   f'needs_quoting only consults {sorted(consulted)}: a '
                   f'name spelt like such a keyword (a type, alias, module '
                   f'or function called `union`) is printed bare and does '
                   f'not parse back as a name', enq.loc,
                   sample=f'{kt} -> back-quoted')
    pnq = repo.func(f'{PGC}.needs_quoting')
    sparam = pnq.params()[0]
    txt = norm(pnq.node)
    lows = _lowercased_names(pnq, sparam)
    classes = []
    for k in ('RESERVED_KEYWORD', 'TYPE_FUNC_NAME_KEYWORD',
              'COL_NAME_KEYWORD'):
        mem = [n for n in ast.walk(pnq.node) if isinstance(n, ast.Compare)
               and len(n.ops) == 1 and isinstance(n.ops[0], ast.In)
               and f'pg_keywords.by_type[pg_keywords.{k}]'
               in norm(n.comparators[0])]
        if mem and all(_is_lowercased(n.left, lows) for n in mem):
            classes.append(k)
    ctx.ob('C18.R3', 'pgsql.common.needs_quoting:keyword-classes',
           len(classes) == 3,
           f'SQL identifier quoting consults only keyword classes '
           f'{classes} on the lower-cased name (reserved, type/function '
           f'name and - for columns - column-name keywords are all needed)',
           pnq.loc, sample=classes)
    ok = any(isinstance(n, ast.Compare) and isinstance(n.ops[0], ast.NotEq)
             and {norm(n.left), norm(n.comparators[0])} ==
             {sparam, f'{sparam}.lower()'} for n in ast.walk(pnq.node))
    ctx.ob('C18.R3', 'pgsql.common.needs_quoting:case-folding', ok,
           'names that are not all lower-case are no longer quoted '
           '(PostgreSQL folds unquoted identifiers to lower case)', pnq.loc,
           sample='string.lower() != string')
    lead = [n for n in ast.walk(pnq.node) if isinstance(n, ast.Call)
            and isinstance(n.func, ast.Attribute)
            and n.func.attr in ('isdecimal', 'isdigit', 'isnumeric')
            and isinstance(n.func.value, ast.Subscript)
            and norm(n.func.value.value) == sparam
            and norm(n.func.value.slice) in ('0', ':1')]
    ctx.ob('C18.R3', 'pgsql.common.needs_quoting:leading-digit', bool(lead),
           'a name starting with a digit is no longer forced into quotes '
           '(unquoted, PostgreSQL reads a number followed by an identifier)',
           pnq.loc, sample='string[0].isdecimal()')
    ok = any(isinstance(n, ast.Call) and isinstance(n.func, ast.Attribute)
             and n.func.attr == 'isalnum' for n in ast.walk(pnq.node))
    ctx.ob('C18.R3', 'pgsql.common.needs_quoting:alnum-only', ok,
           'names with characters other than letters, digits and '
           'underscore are no longer forced into quotes', pnq.loc,
           sample="string.replace('_', 'a').isalnum()")
    pqi = repo.func(f'{PGC}.quote_ident')
    ok = '_quote_ident(ident) if needs_quoting(ident, column=column) or ' \
         'force else ident' in norm(pqi.node)
    ctx.ob('C18.R3', 'pgsql.common.quote_ident:uses-decision', ok,
           'pg quote_ident does not quote when needs_quoting says so',
           pqi.loc, sample='needs_quoting or force -> _quote_ident')

    # path fact for both quote_ident functions: when needs_quoting says the
    # name needs quotes, no return hands the name back as it came in --
    # whatever other shortcut the function takes
    from ..absint import Facts, open_returns
    from ..cfg import CFG as _CFG
    for qfn, label in ((qi, 'edgeql.quote.quote_ident'),
                       (pqi, 'pgsql.common.quote_ident')):
        p0 = qfn.params()[0]
        nq = [norm(c) for c in ast.walk(qfn.node) if isinstance(c, ast.Call)
              and (call_name(c) or '').split('.')[-1] == 'needs_quoting'
              and c.args and norm(c.args[0]) == p0]
        if not nq:
            raise AnalysisError(f'C18.R3: {label} does not consult '
                                f'needs_quoting on its argument any more')
        gq = _CFG(qfn.node)
        Fq = Facts({nq[0]: True, f'isinstance({p0}, pgast.Star)': False},
                   qfn.node)
        raw = [r for r in open_returns(gq, Fq) if r.value is not None
               and any(norm(x) == p0 for x in Fq.leaves(r.value))]
        ctx.ob('C18.R3', f'{label}:never-verbatim-when-quoting-needed',
               not raw and bool(Fq.used),
               f'{label} can return its argument unchanged although '
               f'needs_quoting holds for it (line(s) '
               f'{[getattr(r, "lineno", 0) for r in raw]}): a name '
               f'containing the delimiter or a keyword reaches the '
               f'statement text unquoted', qfn.loc,
               sample=f'under {nq[0]}: no `return {p0}`')

    # ---- R4 sinks -----------------------------------------------------------------
    ctx.floor('C18.R4', 6)
    sg = repo.cls(f'{PGCG}.SQLSourceGenerator')
    pgm = repo.module(PGCG)
    for meth, want in (('visit_StringConstant', f'{PGC}.quote_literal'),
                       ('visit_ByteaConstant', f'{PGC}.quote_bytea_literal')):
        f = repo.find_method(sg.qualname, meth)
        if f is None:
            raise AnalysisError(f'{meth} not found')
        ctx.saw(f)
        writes = [c for c in ast.walk(f.node) if isinstance(c, ast.Call)
                  and norm(c.func) == 'self.write']
        ok = len(writes) == 1 and len(writes[0].args) == 1 and isinstance(
            writes[0].args[0], ast.Call) and repo.resolve_expr(
                pgm, writes[0].args[0].func) == want and \
            norm(writes[0].args[0].args[0]) == 'node.val'
        ctx.ob('C18.R4', f'pgsql.codegen.{meth}', ok,
               f'{meth} does not write {want.split(".")[-1]}(node.val)',
               f.loc, sample=norm(writes[0])[:70] if writes else None)
    ev = repo.func('edb.pgsql.dbops.base.encode_value')
    ctx.saw(ev)
    dbm = ev.module
    ok = dbm.imports.get('ql') == f'{PGC}.quote_literal' or \
        repo.resolve(dbm, 'ql') == f'{PGC}.quote_literal'
    arm = [n for n in ast.walk(ev.node) if isinstance(n, ast.If)
           and norm(n.test) == 'not isinstance(val, numbers.Number)']
    ok = ok and len(arm) == 1 and norm(arm[0].body[0]) == \
        'val = ql(str(val))'
    ctx.ob('C18.R4', 'dbops.encode_value:strings-quoted', ok,
           'encode_value does not pass non-numeric scalars through '
           'quote_literal', ev.loc, sample='val = ql(str(val))')
    for fname, want in (('ident_to_str', 'edgeql_quote.quote_ident'),
                        ('param_to_str', 'edgeql_quote.quote_ident')):
        f = repo.func(f'{QLCG}.{fname}')
        ok = any(isinstance(c, ast.Call) and norm(c.func) == want
                 for c in ast.walk(f.node))
        ctx.ob('C18.R4', f'edgeql.codegen.{fname}', ok,
               f'{fname} does not quote through {want}', f.loc, sample=want)
    # needs_quoting() answers "no" for any string that still contains the
    # module separator, so a qualified name must be cut at *every* `::`
    # before its components are quoted
    nq = repo.func(f'{QUOTE}.needs_quoting')
    sep_exempt = any(isinstance(n, ast.If) and "'::' in" in norm(n.test)
                     and any(isinstance(x, ast.Return) and norm(x.value) ==
                             'False' for x in n.body)
                     for n in ast.walk(nq.node))
    f = repo.func(f'{QLCG}.ident_to_str')
    src = f.params()[0]
    calls = [c for c in ast.walk(f.node) if isinstance(c, ast.Call)
             and norm(c.func).endswith('quote_ident') and c.args]
    full = {}
    for comp_ in ast.walk(f.node):
        gens = getattr(comp_, 'generators', None)
        its = [(g_.target, g_.iter) for g_ in gens] if gens else (
            [(comp_.target, comp_.iter)] if isinstance(comp_, ast.For)
            else [])
        for tg, it in its:
            if isinstance(it, ast.Call) and isinstance(
                    it.func, ast.Attribute) and it.func.attr == 'split' \
                    and norm(it.func.value) == src and len(it.args) == 1 \
                    and not it.keywords and norm(it.args[0]) == "'::'":
                full[norm(tg)] = True
    bad = [norm(c.args[0]) for c in calls if norm(c.args[0]) not in full]
    ctx.ob('C18.R4', 'edgeql.codegen.ident_to_str:every-component',
           bool(calls) and (not bad or not sep_exempt),
           f'ident_to_str quotes {bad} which is not a component of '
           f'`{src}.split(\'::\')`: a part that still contains `::` is '
           f'never quoted (needs_quoting answers False for it), so a '
           f'module path component that is a keyword or contains '
           f'punctuation is printed bare', f.loc,
           sample="for part in ident.split('::'): quote_ident(part)")


def _marker_search_ok(fn, test, text):
    """Decide the loop test of dollar_quote_literal structurally.

    The literal is `quote + text + quote`; the lexer closes it at the first
    occurrence of `quote` after the opening one, so the loop must keep
    looking for a new marker while `quote` occurs in `text + quote` before
    position len(text) - i.e. in `text + quote[:-1]`.  Returns
    (True, ''), (False, why) or (None, '') when the form is not understood.
    """
    t = norm(test)
    good = {f'({text} + quote).find(quote) != len({text})',
            f'({text} + quote).index(quote) != len({text})',
            f'quote in {text} + quote[:-1]',
            f'quote in ({text} + quote)[:-1]'}
    if t in good:
        return True, ''
    # `quote in <haystack>`: classify the haystack
    if isinstance(test, ast.Compare) and len(test.ops) == 1 and isinstance(
            test.ops[0], ast.In) and norm(test.left) == 'quote':
        hay = test.comparators[0]
        forms = _resolve_forms(fn, hay, 0)
        covers = []
        for f_ in forms:
            n = norm(f_)
            if n in (f'{text} + quote[:-1]', f'({text} + quote)[:-1]',
                     f'{text} + quote'):
                covers.append(True)
            elif n == text or (isinstance(f_, ast.BinOp) and isinstance(
                    f_.op, ast.Add) and norm(f_.left) == text
                    and isinstance(f_.right, ast.Constant)):
                covers.append(False)
            else:
                return None, ''
        if covers and all(covers):
            return True, ''
        return False, (
            f'the marker search looks for the marker in `{norm(hay)}` '
            f'(= {[norm(x) for x in forms]}): an occurrence that straddles '
            f'the end of the text (text ending in a prefix of the marker, '
            f'e.g. "...$a" with marker "$a$") closes the literal early')
    return None, ''


def _resolve_forms(fn, e, depth):
    """Possible defining expressions of a haystack expression (follows
    local names and conditional expressions)."""
    if depth > 3:
        return [e]
    if isinstance(e, ast.IfExp):
        return _resolve_forms(fn, e.body, depth + 1) + \
            _resolve_forms(fn, e.orelse, depth + 1)
    if isinstance(e, ast.Name) and e.id not in fn.params():
        defs = [n.value for n in walk_no_nested(fn.node)
                if isinstance(n, ast.Assign)
                and any(norm(t) == e.id for t in n.targets)]
        out = []
        for d in defs:
            out += _resolve_forms(fn, d, depth + 1)
        return out or [e]
    return [e]


def _lowercased_names(fn, param):
    """Local names that hold `<param>.lower()` (incl. the parameter itself
    when it is rebound to its own lower-case form before use)."""
    out = set()
    for n in walk_no_nested(fn.node):
        if isinstance(n, ast.Assign) and norm(n.value) in (
                f'{param}.lower()', f'{param}.casefold()'):
            for t in n.targets:
                out.add(norm(t))
    return out


def _is_lowercased(e, lows) -> bool:
    n = norm(e)
    if n.endswith('.lower()') or n.endswith('.casefold()'):
        return True
    return n in lows
