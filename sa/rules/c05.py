"""C05 — backend tables and columns track the schema.

  R1 backend names are functions of the object id (renames are free)
  R2 create/drop operation symmetry per adapter family
  R4 every storage-bearing schema command has a backend adapter
  R5 the two arms of the single<->multi storage move are converses
(R3 "one decision function" is not built: see DESIGN.)
"""
from __future__ import annotations

import ast
from typing import Dict, List, Optional, Set, Tuple

from ..model import (AnalysisError, FuncInfo, Repo, call_name, dotted, kwarg,
                     norm, walk_no_nested)

PGC = 'edb.pgsql.common'
PGD = 'edb.pgsql.delta'

ID_NAMED = ['get_objtype_backend_name', 'get_pointer_backend_name',
            'get_scalar_backend_name', 'get_index_backend_name',
            'get_constraint_backend_name']

PAIRS = [('CreateTable', 'DropTable'),
         ('AlterTableAddColumn', 'AlterTableDropColumn'),
         ('CreateDomain', 'DropDomain'),
         ('CreateSequence', 'DropSequence'),
         ('CreateCompositeType', 'DropCompositeType'),
         ('CreateIndex', 'DropIndex'),
         ('CreateFunction', 'DropFunction'),
         ('CreateRole', 'DropRole')]

# (family, create-op) whose drop is implied by another drop of the family
IMPLIED_DROPS = {
    ('Link', 'CreateIndex'): 'pointer-table indexes are dropped with the '
                             'table (DROP TABLE)',
    ('Property', 'CreateIndex'): 'same',
    ('Operator', 'CreateFunction'):
        'operator functions exist only for standard-library operators, '
        'which are never dropped',
}

CREATE_HOOKS = ['apply', '_create_begin', '_create_innards',
                '_create_finalize']
DELETE_HOOKS = ['apply', '_delete_begin', '_delete_innards',
                '_delete_finalize']


def reach_ops(repo: Repo, cq: str, starts: List[str]) -> Dict[str, List[str]]:
    """dbops constructors reachable from the template hooks of adapter
    class cq, following self./cls. calls through cq's MRO and super()."""
    seen: Set[str] = set()
    ops: Dict[str, List[str]] = {}
    stack = [(cq, s) for s in starts]
    while stack:
        clsq, meth = stack.pop()
        f = repo.find_method(clsq, meth)
        if f is None or f.qualname in seen:
            continue
        if not f.module.name.startswith('edb.pgsql'):
            continue
        seen.add(f.qualname)
        for n in ast.walk(f.node):
            if not isinstance(n, ast.Call):
                continue
            d = dotted(n.func) or ''
            if d.startswith('dbops.'):
                ops.setdefault(d[6:], []).append(f'{f.loc}')
            fn = n.func
            if isinstance(fn, ast.Attribute) and isinstance(
                    fn.value, ast.Name) and fn.value.id in ('self', 'cls'):
                stack.append((cq, fn.attr))
            if isinstance(fn, ast.Attribute) and isinstance(
                    fn.value, ast.Call) and norm(fn.value.func) == 'super':
                mro = repo.mro(cq)
                if f.cls and f.cls.qualname in mro:
                    i = mro.index(f.cls.qualname)
                    for k in mro[i + 1:]:
                        c2 = repo.classes.get(k)
                        if c2 and fn.attr in c2.methods:
                            stack.append((k, fn.attr))
                            break
    return ops


def run(repo: Repo, ctx) -> None:
    ctx.explanation = (
        'Decides structural clauses of the schema-to-storage mapping: R1 '
        'the backend name of object types, pointers, scalars, indexes and '
        'constraints is built from the object id and the module only - the '
        'dispatch passes obj.id and name.module, never the local name, and '
        'each naming function forms QualName(module, str(id)) - so renames '
        'cannot orphan storage; R2 for each adapter family of '
        'edb/pgsql/delta.py, if the Create command\'s template hooks reach '
        'a storage-creating dbops constructor (following self/super calls '
        'through the MRO) then the Delete command\'s hooks reach the '
        'matching drop; R4 every concrete Create/Alter/Delete/Rename '
        'command of a storage-bearing schema class has an adapts= '
        'counterpart; R5 in _alter_pointer_cardinality the arm that moves '
        'data into the source table adds the column, copies, and drops the '
        'pointer table (guarded by has_table), the other arm creates the '
        'table, copies, and drops the column, in that order. Per-history '
        'presence of a given column or table is NOT decided.')
    ctx.not_decided = ['per-history presence of columns and tables',
                       'single storage-decision function (R3 not built)',
                       'required<->optional, computed<->stored moves']
    cm = repo.module(PGC)

    # ---- R1 ---------------------------------------------------------------
    ctx.floor('C05.R1', 8)
    gb = [f for f in repo.all_defs_named(PGC, 'get_backend_name')]
    impl = max(gb, key=lambda f: f.node.lineno)
    ctx.saw(impl)
    arms = 0
    for n in ast.walk(impl.node):
        if isinstance(n, ast.Return) and isinstance(n.value, ast.Call):
            callee = call_name(n.value)
            if callee in ID_NAMED:
                arms += 1
                a = [norm(x) for x in n.value.args]
                ok = len(a) >= 2 and a[0] == 'obj.id' and a[1] == \
                    'name.module'
                others = [x for x in a[2:]] + [norm(k.value)
                                               for k in n.value.keywords]
                leak = [x for x in a + others if 'name.name' in x or
                        'shortname' in x or 'get_displayname' in x]
                ctx.ob('C05.R1', f'get_backend_name:{callee}',
                       ok and not leak,
                       f'get_backend_name passes {a[:2]} to {callee}: the '
                       f'backend name must depend on obj.id and the module '
                       f'only, or a rename orphans the table/column',
                       f'{cm.rel()}:{n.lineno}', sample=a[:2])
    if arms < 4:
        raise AnalysisError('C05.R1: id-named arms of get_backend_name not '
                            'found')
    for fname in ID_NAMED:
        f = repo.func(f'{PGC}.{fname}')
        ctx.saw(f)
        qn = [c for c in ast.walk(f.node) if isinstance(c, ast.Call)
              and norm(c.func) == 's_name.QualName']
        ok = bool(qn)
        for c in qn:
            nm = kwarg(c, 'name')
            mod = kwarg(c, 'module')
            if nm is None or mod is None:
                # positional re-wrap of an existing name (suffix append)
                continue
            n_ok = norm(nm) in ('str(id)', 'sname')
            if norm(nm) == 'sname':
                defs = [norm(x.value) for x in walk_no_nested(f.node)
                        if isinstance(x, ast.Assign)
                        and norm(x.targets[0]) == 'sname']
                n_ok = all(d in ('str(id)', 'get_constraint_raw_name(id)')
                           for d in defs)
            ok = ok and n_ok and norm(mod) == 'module_name'
        ctx.ob('C05.R1', f'{fname}:name-from-id', ok,
               f'{fname} does not build the backend name as '
               f'QualName(module_name, str(id))', f.loc,
               sample='QualName(module=module_name, name=str(id))')

    # ---- R2 -----------------------------------------------------------------
    ctx.floor('C05.R2', 6)
    dm = repo.module(PGD)
    fam: Dict[str, Dict[str, str]] = {}
    n_adapt = 0
    for c in dm.classes.values():
        a = c.keywords.get('adapts')
        if a is None:
            continue
        n_adapt += 1
        nm = c.name
        for verb in ('Create', 'Delete'):
            if nm.startswith(verb):
                fam.setdefault(nm[len(verb):], {})[verb] = c.qualname
    if n_adapt < 100:
        raise AnalysisError(f'C05.R2: only {n_adapt} adapter classes')
    n_pairs = 0
    for family, d in sorted(fam.items()):
        if 'Create' not in d or 'Delete' not in d:
            continue
        cops = reach_ops(repo, d['Create'], CREATE_HOOKS)
        dops = reach_ops(repo, d['Delete'], DELETE_HOOKS)
        for cop, dop in PAIRS:
            if cop not in cops:
                continue
            n_pairs += 1
            if (family, cop) in IMPLIED_DROPS:
                ctx.ob('C05.R2', f'{family}:{cop}->{dop}', True,
                       loc=cops[cop][0],
                       sample='implied: ' + IMPLIED_DROPS[(family, cop)],
                       nontrivial=False)
                continue
            ok = dop in dops
            ctx.ob('C05.R2', f'{family}:{cop}->{dop}', ok,
                   f'Create{family} reaches dbops.{cop} ({cops[cop][0]}) '
                   f'but no template hook of Delete{family} reaches '
                   f'dbops.{dop}: dropping the object leaves its storage '
                   f'behind', cops[cop][0],
                   sample=f'{dop} at {dops.get(dop, ["-"])[0]}')
    if n_pairs < 6:
        raise AnalysisError(f'C05.R2: only {n_pairs} create/drop pairs')

    # ---- R4 adapter exhaustiveness ---------------------------------------------
    ctx.floor('C05.R4', 20)
    adapted = set()
    for c in dm.classes.values():
        a = c.keywords.get('adapts')
        if a is not None:
            adapted.add(repo.resolve_expr(dm, a))
    storage_mods = ('edb.schema.objtypes', 'edb.schema.links',
                    'edb.schema.properties', 'edb.schema.scalars',
                    'edb.schema.indexes', 'edb.schema.constraints',
                    'edb.schema.functions', 'edb.schema.pointers')
    objcmd = 'edb.schema.delta.ObjectCommand'
    for mn in storage_mods:
        m = repo.modules.get(mn)
        if m is None:
            continue
        for c in m.classes.values():
            if objcmd not in repo.mro(c.qualname):
                continue
            if not c.name.startswith(('Create', 'Alter', 'Delete', 'Rename',
                                      'Rebase', 'Set')):
                continue
            # concrete command classes declare an astnode (or inherit one
            # with a schema metaclass); abstract mixins do not
            if 'astnode' not in c.assign_fields and not any(
                    k.arg == 'schema_metaclass' for k in c.node.keywords):
                if not c.name.startswith(('Create', 'Delete', 'Alter',
                                          'Rename', 'Rebase')):
                    continue
            if c.name.endswith(('Command', 'Mixin', 'Base', 'Fragment')) or \
                    c.name.startswith(('AlterSpecial',)):
                continue
            # generic bases (CreatePointer, AlterCallableObject, ...) are
            # specialised per kind; only leaves are instantiated
            if any(s_.startswith('edb.schema.') for s_ in
                   repo.subclasses(c.qualname, strict=True)):
                continue
            ok = c.qualname in adapted
            ctx.ob('C05.R4', f'{c.qualname}:adapter', ok,
                   f'{c.qualname} has no adapts= counterpart in '
                   f'edb/pgsql/delta.py: the schema change is accepted but '
                   f'no SQL is emitted for it', c.loc,
                   sample='adapted', nontrivial=False)

    # ---- R5 converse arms -------------------------------------------------------
    ctx.floor('C05.R5', 4)
    pm = repo.cls(f'{PGD}.PointerMetaCommand')
    f = pm.methods.get('_alter_pointer_cardinality')
    if f is None:
        raise AnalysisError('_alter_pointer_cardinality not found')
    ctx.saw(f)
    arm = None
    for n in f.node.body:
        if isinstance(n, ast.If) and norm(n.test) == 'not is_multi' and any(
                'AlterTableAddColumn' in norm(x) or 'create_table' in norm(x)
                for x in ast.walk(n)):
            arm = n
    if arm is None:
        raise AnalysisError('C05.R5: the single/multi split not found')

    def first_line(body, pred):
        ls = [x.lineno for st in body for x in ast.walk(st)
              if isinstance(x, ast.Call) and pred(x)]
        return min(ls) if ls else None

    def is_op(name):
        return lambda c: norm(c.func) == f'dbops.{name}'
    into_src, into_tab = arm.body, arm.orelse
    a_add = first_line(into_src, is_op('AlterTableAddColumn'))
    a_copy = first_line(into_src, is_op('Query'))
    a_drop = first_line(into_src, is_op('DropTable'))
    ok = None not in (a_add, a_copy, a_drop) and a_add < a_copy < a_drop
    ctx.ob('C05.R5', 'multi->single:add-copy-drop', ok,
           f'moving a pointer into the source table must add the column '
           f'(L{a_add}), copy the data (L{a_copy}) and then drop the '
           f'pointer table (L{a_drop}), in that order', f.loc,
           sample=f'add L{a_add} < copy L{a_copy} < drop L{a_drop}')
    guard = [n for st in into_src for n in ast.walk(st)
             if isinstance(n, ast.If)
             and any(isinstance(c, ast.Call) and norm(c) ==
                     'types.has_table(ptr, schema)' and _negated(n.test, c)
                     for c in ast.walk(n.test))
             and any(isinstance(x, ast.Call) and norm(x.func) ==
                     'dbops.DropTable' for x in ast.walk(n))]
    ctx.ob('C05.R5', 'multi->single:drop-guarded-by-has_table', bool(guard),
           'the pointer table is dropped without asking has_table(): a link '
           'that still has link properties keeps its table', f.loc,
           sample='if not types.has_table(ptr, schema): DropTable')
    b_create = first_line(into_tab, lambda c: norm(c.func) ==
                          'self.create_table')
    b_copy = first_line(into_tab, is_op('Query'))
    b_drop = first_line(into_tab, is_op('AlterTableDropColumn'))
    ok = None not in (b_create, b_copy, b_drop) and b_create < b_copy < b_drop
    ctx.ob('C05.R5', 'single->multi:create-copy-drop', ok,
           f'moving a pointer into its own table must create the table '
           f'(L{b_create}), copy the data (L{b_copy}) and then drop the '
           f'column (L{b_drop}), in that order', f.loc,
           sample=f'create L{b_create} < copy L{b_copy} < drop L{b_drop}')
    # no creating op of the same kind in the opposite arm
    cross = first_line(into_src, lambda c: norm(c.func) ==
                       'self.create_table') is None and first_line(
        into_tab, is_op('AlterTableAddColumn')) is None and first_line(
        into_tab, is_op('DropTable')) is None and first_line(
        into_src, is_op('AlterTableDropColumn')) is None
    ctx.ob('C05.R5', 'arms-are-converses', cross,
           'an arm creates or drops the storage kind it is supposed to '
           'move data out of / into', f.loc,
           sample='each arm: one create and one drop of opposite kinds')

    _r6(repo, ctx)
    _r7(repo, ctx)
    _r8(repo, ctx)
    _r9(repo, ctx)
    _r10(repo, ctx)


TYPES = 'edb.pgsql.types'


def _name_rule(repo: Repo, mod, node_or_stmts, depth: int = 0, fn_node=None):
    """Column-naming decisions in a block: list of
       (table_type, kind, consts, prefixes)
    kind 'by-name': the column is the pointer's short name when it is one of
    consts / starts with one of prefixes, else its id; kind 'const': fixed."""
    out = []
    stmts = node_or_stmts

    def name_test(t):
        """(consts, prefixes) if t tests the pointer's short name"""
        consts, prefixes = set(), set()
        hit = False
        for n in ast.walk(t):
            if isinstance(n, ast.Compare) and len(n.ops) == 1:
                c = n.comparators[0]
                if isinstance(n.ops[0], ast.Eq) and isinstance(
                        c, ast.Constant) and isinstance(c.value, str):
                    consts.add(c.value)
                    hit = True
                elif isinstance(n.ops[0], ast.In) and isinstance(
                        c, (ast.Tuple, ast.List, ast.Set)):
                    consts |= {e.value for e in c.elts
                               if isinstance(e, ast.Constant)}
                    hit = True
            elif isinstance(n, ast.Call) and isinstance(
                    n.func, ast.Attribute) and n.func.attr == 'startswith' \
                    and n.args and isinstance(n.args[0], ast.Constant):
                prefixes.add(n.args[0].value)
                hit = True
            elif isinstance(n, ast.Call) and isinstance(
                    n.func, ast.Attribute) and n.func.attr == 'endswith' \
                    and n.args and isinstance(n.args[0], ast.Constant):
                # a further restriction of the verbatim names
                prefixes.add('...' + n.args[0].value)
                hit = True
        return (consts, prefixes) if hit else None

    def block(stmts):
        ttype = None
        decisions = []
        for st in stmts:
            if isinstance(st, ast.Assign):
                tg = [norm(t) for t in st.targets]
                if 'table_type' in tg and isinstance(st.value, ast.Constant):
                    ttype = st.value.value
                if 'col_name' in tg:
                    if isinstance(st.value, ast.Constant):
                        if st.value.value is not None:
                            decisions.append(('const', {st.value.value},
                                              set()))
                    elif isinstance(st.value, ast.Call) and depth < 2:
                        q = repo.resolve_expr(mod, st.value.func)
                        h = repo.functions.get(repo.canon(q)) if q else None
                        if h is not None:
                            for (_t, k, c, p) in _name_rule(
                                    repo, mod, h.node.body, depth + 1,
                                    h.node):
                                decisions.append((k, c, p))
                # tuple-unpacked helper result: table, table_type, col_name
                if isinstance(st.targets[0], ast.Tuple) and 'col_name' in [
                        norm(e) for e in st.targets[0].elts] and isinstance(
                        st.value, ast.Call) and depth < 2:
                    q = repo.resolve_expr(mod, st.value.func)
                    h = repo.functions.get(repo.canon(q)) if q else None
                    if h is not None:
                        out.extend(_name_rule(repo, mod, h.node.body,
                                              depth + 1, h.node))
            elif isinstance(st, ast.If):
                nt = name_test(st.test)
                assigns_col = any(
                    isinstance(x, ast.Assign) and 'col_name' in [
                        norm(t) for t in x.targets]
                    for b in (st.body, st.orelse) for y in b
                    for x in ast.walk(y)) or any(
                    isinstance(x, ast.Return) for b in (st.body, st.orelse)
                    for y in b for x in ast.walk(y))
                tt = norm(st.test)
                if fn_node is not None:
                    from ..model import inline_locals
                    tt = inline_locals(fn_node, st.test)
                if nt is not None and assigns_col and 'shortname' in tt:
                    decisions.append(('by-name', nt[0], nt[1]))
                else:
                    block(st.body)
                    block(st.orelse)
            elif isinstance(st, (ast.With, ast.For, ast.Try)):
                block(getattr(st, 'body', []))
        for k, c, p in decisions:
            out.append((ttype, k, frozenset(c), frozenset(p)))

    block(stmts)
    return out


def _r6(repo: Repo, ctx) -> None:
    """DDL side and query-compiler side name the same column."""
    ctx.floor('C05.R6', 3)
    tm = repo.module(TYPES)
    s_side = repo.func(f'{TYPES}.get_pointer_storage_info')
    i_side = repo.func(f'{TYPES}._get_ptrref_storage_info')
    ctx.saw(s_side)
    ctx.saw(i_side)
    S = _name_rule(repo, tm, s_side.node.body, 0, s_side.node)
    I = _name_rule(repo, tm, i_side.node.body, 0, i_side.node)

    def pick(rules, ttype, kind):
        return [(c, p) for t, k, c, p in rules if t == ttype and k == kind]

    # link@target is normalised to the link itself on the schema side
    normalised = any(isinstance(n, ast.If) and "'std::target'" in norm(n.test)
                     and any(norm(x) == 'pointer = source' for x in n.body)
                     for n in ast.walk(s_side.node))
    for ttype in ('ObjectType', 'link'):
        a = pick(S, ttype, 'by-name')
        b = pick(I, ttype, 'by-name')
        if len(a) != 1 or len(b) != 1:
            raise AnalysisError(
                f'C05.R6: naming rule for {ttype} columns not recognised '
                f'(schema side {a}, IR side {b})')
        (sc, sp), (ic, ip) = a[0], b[0]
        if ttype == 'link' and normalised:
            sc = sc | {'target'}
        ok = (set(sc), set(sp)) == (set(ic), set(ip))
        ctx.ob('C05.R6', f'column-name:{ttype}', ok,
               f'for columns of {ttype} tables the DDL side '
               f'(get_pointer_storage_info) keeps the names '
               f'{sorted(sc)} / prefixes {sorted(sp)} verbatim, the query '
               f'compiler side (_get_ptrref_storage_info) keeps '
               f'{sorted(ic)} / {sorted(ip)}: a pointer named by the '
               f'difference is created under its id but addressed by name',
               i_side.loc, sample=f'{sorted(ic)} + {sorted(ip)}')
    a = pick(S, 'link', 'const')
    b = pick(I, 'link', 'const')
    ok = bool(a) and bool(b) and {tuple(c) for c, _ in a} == {
        tuple(c) for c, _ in b} == {('target',)}
    ctx.ob('C05.R6', 'column-name:link-table-target', ok,
           f'the target column of a link table is named {a} by the DDL '
           f'side and {b} by the query compiler side', i_side.loc,
           sample="'target'")
    # both sides decide "in the source table" / "own table" the same way
    pairs = (('_pointer_storable_in_source', '_ptrref_storable_in_source'),
             ('_pointer_storable_in_pointer', '_ptrref_storable_in_pointer'))
    for sn_, in_ in pairs:
        sf = repo.func(f'{TYPES}.{sn_}')
        inf = repo.func(f'{TYPES}.{in_}')

        def shape(f):
            # the decision for a plain (non-union) pointer: last return
            r = [x for x in ast.walk(f.node) if isinstance(x, ast.Return)]
            r.sort(key=lambda x: x.lineno)
            t = norm(r[-1].value) if r else ''
            for a, b in (('pointer.singular(schema)', 'SINGLE'),
                         ('ptrref.out_cardinality.is_single()', 'SINGLE'),
                         ('ptrref.out_cardinality.is_multi()', 'not SINGLE'),
                         ('pointer.has_user_defined_properties(schema)',
                          'LPROPS'),
                         ('ptrref.has_properties', 'LPROPS')):
                t = t.replace(a, b)
            return t.strip('()')
        a_, b_ = shape(sf), shape(inf)
        ctx.ob('C05.R6', f'storable:{sn_}', a_ == b_ and 'SINGLE' in a_,
               f'{sn_} decides `{a_}` but {in_} decides `{b_}`: DDL and '
               f'query compiler disagree on where the pointer lives',
               inf.loc, sample=a_)


def _r7(repo: Repo, ctx) -> None:
    """"still needs its table" is asked of the schema after the command,
    "had a table" of the schema before it: if / elif chains that ask
    has_table() about one object under both schemas."""
    ctx.floor('C05.R7', 1)
    DM = 'edb.pgsql.delta'
    m = repo.module(DM)
    n = 0

    def has_table_calls(t):
        return [c for c in ast.walk(t) if isinstance(c, ast.Call)
                and norm(c.func) == 'types.has_table' and len(c.args) >= 2]

    def ops(body):
        return {norm(c.func) for b in body for c in ast.walk(b)
                if isinstance(c, ast.Call) and norm(c.func) in (
                    'dbops.DropTable', 'dbops.AlterTableDropColumn')}

    for f in repo._funcs_of(m):
        ps = f.params()
        if not ('schema' in ps and 'orig_schema' in ps):
            continue
        for t in ast.walk(f.node):
            if not (isinstance(t, ast.If) and len(t.orelse) == 1
                    and isinstance(t.orelse[0], ast.If)):
                continue
            a = has_table_calls(t.test)
            b = has_table_calls(t.orelse[0].test)
            for ca in a:
                for cb in b:
                    if norm(ca.args[0]) != norm(cb.args[0]):
                        continue
                    n += 1
                    ctx.saw(f)
                    first, second = norm(ca.args[1]), norm(cb.args[1])
                    o1, o2 = ops(t.body), ops(t.orelse[0].body)
                    ok = (first, second) == ('schema', 'orig_schema') and \
                        'dbops.DropTable' not in o1 and \
                        o2 == {'dbops.DropTable'}
                    ctx.ob('C05.R7',
                           f'{f.qualname}:has_table({norm(ca.args[0])})',
                           ok,
                           f'{f.qualname}: the arm that keeps the table and '
                           f'drops a column asks has_table(.., {first}), '
                           f'the arm that drops the table asks '
                           f'has_table(.., {second}); expected the schema '
                           f'after the command first (is the table still '
                           f'needed?) and the schema before it second (was '
                           f'there one?). Otherwise the table of a link '
                           f'whose last property was removed is never '
                           f'dropped, and re-adding a property fails with '
                           f'"relation already exists"', f.loc,
                           sample=f'{first} -> {sorted(o1)}; {second} -> '
                                  f'{sorted(o2)}')
    if n < 1:
        raise AnalysisError('C05.R7: no has_table if/elif chain found')


def _r8(repo: Repo, ctx) -> None:
    from .. import lints
    from ..absint import Facts, must_pass
    from ..cfg import CFG
    ctx.floor('C05.R8', 3)
    # (a) before / after schemas (and other same-typed arguments) reach the
    #     parameter of their own name
    n, hits = lints.swapped_arguments(repo, ['edb.pgsql'])
    if n < 500:
        raise AnalysisError(f'C05.R8: only {n} resolved call sites')
    ctx.ob('C05.R8', 'edb.pgsql:argument-alignment', not hits,
           '; '.join(
               f'{f.qualname} passes `{a}` and `{b}` to {cal.name} each in '
               f'the position of the parameter named like the other: the '
               f'callee decides about storage against the wrong schema '
               f'version (e.g. a link that is still computed there), so no '
               f'column / table is emitted' for f, c, cal, a, b in hits[:3]),
           hits[0][0].loc if hits else '',
           sample=f'{n} resolved call sites with >= 2 positional arguments')
    DM = 'edb.pgsql.delta'
    # (b) the column of a dropped link stays only when the owning object
    #     type itself is being dropped
    dl = repo.func(f'{DM}.LinkMetaCommand._delete_link')
    ctx.saw(dl)
    g = CFG(dl.node)
    drops = [n_.id for n_ in g.nodes if any(
        norm(c.func) == 'dbops.AlterTableDropColumn'
        for c in g.node_calls(n_))]
    if not drops:
        raise AnalysisError('C05.R8: column drop of _delete_link not found')
    guards = [t for t in g.nodes if t.kind == 'test' and any(
        g.edge_dominates(t.id, 'T', d) for d in drops)]
    txt = ' ; '.join(norm(t.ast) for t in guards)
    ok = 'isinstance(objtype.op, s_objtypes.DeleteObjectType)' in txt
    ctx.ob('C05.R8', '_delete_link:column-dropped-unless-type-dropped', ok,
           f'the column drop of a deleted link is guarded by `{txt[:120]}`, '
           f'not by "the owning object type is itself being dropped": '
           f'deletes propagated to descendants while the parent\'s command '
           f'is still on the stack keep their columns', dl.loc,
           sample='not isinstance(objtype.op, DeleteObjectType)')
    # (c) only link tables bring their own source / target columns
    cp = repo.func(f'{DM}.PropertyMetaCommand._create_property')
    ctx.saw(cp)
    g = CFG(cp.node)
    adds = [n_.id for n_ in g.nodes if any(
        norm(c.func) == 'dbops.AlterTableAddColumn'
        for c in g.node_calls(n_))]
    if not adds:
        raise AnalysisError('C05.R8: column creation of _create_property '
                            'not found')
    F = Facts({'src': True, 'types.has_table(src.scls, schema)': True,
               'prop.is_pure_computable(schema)': False,
               "ptr_stor_info.table_type == 'ObjectType'": True,
               "propname not in {'source', 'target'}": False,
               "propname in {'source', 'target'}": True}, cp.node)
    F.inst['src.scls'] = {'ObjectType', 'Source', 'InheritingObject',
                          'Object'}
    from ..absint import open_nodes
    on = open_nodes(g, F)
    loops = [n_.id for n_ in g.nodes if n_.kind == 'for' and 'cols' in
             norm(n_.ast.iter)]
    ok = bool(set(loops) & on) or bool(set(adds) & on)
    ctx.ob('C05.R8', '_create_property:objtype-property-named-source', ok,
           'a stored single property of an object type that happens to be '
           'called `source` or `target` gets no column: only link tables '
           'come with their own source / target columns', cp.loc,
           sample='skip only when isinstance(src.scls, Link)')


def _r9(repo: Repo, ctx) -> None:
    from ..absint import Facts, must_pass
    from ..cfg import CFG
    ctx.floor('C05.R9', 4)
    # (a) dropping a stored property always goes through _delete_property
    #     (a multi property owns a table that DROP TYPE does not remove)
    dp = repo.func('edb.pgsql.delta.DeleteProperty._delete_innards')
    ctx.saw(dp)
    g = CFG(dp.node)
    calls = [n.id for n in g.nodes if any(
        norm(c.func) == 'self._delete_property' for c in g.node_calls(n))]
    if not calls:
        raise AnalysisError('C05.R9: DeleteProperty no longer calls '
                            '_delete_property')
    F = Facts({'source': True, 'prop.is_pure_computable(schema)': False},
              dp.node)
    ok = must_pass(g, F, calls) and bool(F.used)
    ctx.ob('C05.R9', 'DeleteProperty:storage-always-released', ok,
           'DeleteProperty skips _delete_property for some stored '
           'properties (e.g. when the owning type is dropped as well): the '
           '(source, target) table of a multi property is not part of the '
           'type\'s table and stays behind', dp.loc,
           sample='source and not computable -> _delete_property')
    # (b) the relations built over link tables ask for the link-table
    #     column of every pointer
    im = repo.module('edb.pgsql.inheritance')
    n = 0
    for f in repo._funcs_of(im):
        for c in ast.walk(f.node):
            if isinstance(c, ast.Call) and norm(c.func).endswith(
                    'get_pointer_storage_info'):
                n += 1
                ctx.saw(f)
                ok = kwarg(c, 'link_bias') is not None
                ctx.ob('C05.R9', f'inheritance.{f.name}:link_bias@L'
                       f'{c.lineno - f.node.lineno}', ok,
                       f'{f.name} asks for the storage of a pointer without '
                       f'link_bias: for a single link that owns a table '
                       f'(link properties) the answer is the column in the '
                       f'source table, which the link table does not have',
                       f.loc, sample='link_bias=isinstance(obj, Link)')
    if n < 3:
        raise AnalysisError(f'C05.R9: only {n} storage lookups in '
                            f'edb.pgsql.inheritance')


def _r10(repo: Repo, ctx) -> None:
    """C05.R10
    (a) the pointer adapters drop a pointer's own table whenever it had one:
        under the single assumption `types.has_table(<ptr>, orig_schema)` the
        DropTable of `_delete_link` / `_delete_property` lies on every path
        to the end of the function (it must not depend on the pointer being
        concrete, on its source, ...: an abstract link has a table too).
    (b) the backend command tree collects, in each of the three apply hooks
        of MetaCommand, the commands of the *namesake* getter: commands
        caused in descendants (how pointer DDL on a parent reaches existing
        subtypes) are applied to the schema by the base class, and unless
        `apply_caused` also collects `get_caused()` their SQL is never
        emitted."""
    from ..absint import Facts, must_pass
    from ..cfg import CFG
    ctx.floor('C05.R10', 4)
    for cls, meth in (('LinkMetaCommand', '_delete_link'),
                      ('PropertyMetaCommand', '_delete_property')):
        f = repo.find_method(f'{PGD}.{cls}', meth)
        if f is None:
            raise AnalysisError(f'C05.R10: {cls}.{meth} not found')
        ctx.saw(f)
        g = CFG(f.node)
        ptr = f.params()[1]
        own = f'types.has_table({ptr}, orig_schema)'
        drops = [n.id for n in g.nodes if n.kind == 'stmt' and n.ast is not
                 None and any(isinstance(c, ast.Call) and norm(c.func) ==
                              'dbops.DropTable' for c in ast.walk(n.ast))
                 and any(t.kind == 'test' and own in norm(
                     t.ast.test if hasattr(t.ast, 'test') else t.ast)
                     and g.edge_dominates(t.id, 'T', n.id)
                     for t in g.nodes)]
        if not drops:
            # the drop is there but asks another schema whether the pointer
            # had a table: by the time the pointer is deleted only the
            # original schema still knows
            import re as _re
            other = []
            for n_ in g.nodes:
                if n_.kind == 'stmt' and n_.ast is not None and any(
                        isinstance(c, ast.Call) and norm(c.func) ==
                        'dbops.DropTable' for c in ast.walk(n_.ast)):
                    for t in g.nodes:
                        if t.kind != 'test' or not g.edge_dominates(
                                t.id, 'T', n_.id):
                            continue
                        m_ = _re.search(
                            r'types\.has_table\(' + _re.escape(ptr) +
                            r', (\w+)\)', norm(
                                t.ast.test if hasattr(t.ast, 'test')
                                else t.ast))
                        if m_ and m_.group(1) != 'orig_schema':
                            other.append(m_.group(1))
            if other:
                ctx.ob('C05.R10', f'{cls}.{meth}:own-table-dropped', False,
                       f'{meth} decides whether the pointer\'s own table has '
                       f'to be dropped by asking `{other[0]}` instead of the '
                       f'original schema: when the last link property was '
                       f'already removed by the same command tree that '
                       f'schema says "no table" and the table is left behind',
                       f.loc, sample=f'has_table({ptr}, {other[0]})')
                continue
            raise AnalysisError(f'C05.R10: {meth}: no DropTable under '
                                f'`{own}`')
        facts = {own: True,
                 f"{ptr}.get_shortname(schema).name == '__type__'": False}
        fx = Facts(facts, fn_node=f.node)
        ok = must_pass(g, fx, drops)
        ctx.ob('C05.R10', f'{cls}.{meth}:own-table-dropped', ok,
               f'under `{own}` there is a path through {meth} that does not '
               f'drop the pointer\'s table: CREATE made a table for every '
               f'pointer for which has_table() holds (abstract links '
               f'included), so that table outlives the pointer',
               f.loc, sample=f'DropTable on every path under {own}')
    mc = repo.cls(f'{PGD}.MetaCommand')
    for kind, getter in (('prerequisites', 'get_prerequisites'),
                         ('subcommands', 'get_subcommands'),
                         ('caused', 'get_caused')):
        f = mc.methods.get(f'apply_{kind}')
        if f is None:
            raise AnalysisError(f'C05.R10: MetaCommand.apply_{kind} not '
                                f'found')
        ctx.saw(f)
        got = {c.func.attr for c in ast.walk(f.node)
               if isinstance(c, ast.Call) and isinstance(
                   c.func, ast.Attribute) and norm(c.func.value) == 'self'
               and c.func.attr.startswith('get_')}
        ctx.ob('C05.R10', f'MetaCommand.apply_{kind}:collects-{getter}',
               getter in got and len(got) == 1,
               f'MetaCommand.apply_{kind} collects {sorted(got)} into pgops '
               f'instead of self.{getter}(): those commands are applied to '
               f'the schema but their backend operations are never emitted '
               f'(a property added to a parent type gets no column in the '
               f'tables of existing subtypes)', f.loc, sample=getter)


def _negated(test: ast.AST, node: ast.AST) -> bool:
    for n in ast.walk(test):
        if isinstance(n, ast.UnaryOp) and isinstance(n.op, ast.Not) and any(
                x is node for x in ast.walk(n.operand)):
            return True
    return False
