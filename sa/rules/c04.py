"""C04 — schema stays referentially intact; earlier versions stay frozen.

  R1 FlatSchema is persistent: single-writer fields, no in-place write
  R2 every data mutation updates name/type/refs indexes in lock-step
  R3 single deleter, guarded by the referrer check
  R4 lookups answer from the six maps of *this* version only
  R5 rename discipline
  R6 values shared between schema versions are never mutated in place
"""
from __future__ import annotations

import ast
from typing import Dict, List, Optional, Set

from ..cfg import CFG
from ..model import (AnalysisError, FuncInfo, Repo, call_name, dotted, kwarg,
                     module_attr_writes, module_calls, module_nodes, norm,
                     walk_no_nested)

SCH = 'edb.schema.schema'
DELTA = 'edb.schema.delta'
FIELDS = ['_id_to_data', '_id_to_type', '_name_to_id', '_shortname_to_id',
          '_globalname_to_id', '_refs_to', '_generation']
KW = ['id_to_data', 'id_to_type', 'name_to_id', 'shortname_to_id',
      'globalname_to_id', 'refs_to']

ALLOWED_DELETERS = {
    'edb.schema.delta.DeleteObject._delete_finalize':
        'the only semantic deleter; guarded by the referrer check',
    'edb.pgsql.delta.FunctionCommand._compile_edgeql_function':
        'local, discarded schema copy used only to recompile a function '
        'body while an object type is being dropped (result never '
        'published)',
}


def run(repo: Repo, ctx) -> None:
    ctx.explanation = (
        'Decides for the schema store: R1 the seven FlatSchema fields are '
        'assigned only in __init__ and on the fresh object inside _replace '
        '(which assigns every one of them), nothing in edb/ writes through '
        'them in place, the bulk loader hands all maps to _replace in one '
        'call, ChainedSchema\'s components likewise; R2 every mutator that '
        'derives a new _id_to_data passes, to the returning _replace, the '
        'type map, the three name indexes from _update_obj_name with the '
        'right old/new arguments, and refs_to from _update_refs_to with the '
        'right old/new reference sets (None only under the '
        'not-an-object-reference test); R3 Schema.delete/discard are called '
        'only from DeleteObject._delete_finalize (plus forwarding and one '
        'reasoned local use) and there the call is dominated by the '
        'referrer check unless canonical/dependency verification is off; R4 '
        'lookups read only the maps of self, memoisation is per instance or '
        'keyed by the schema value; R5 a rename sets the name to new_name, '
        'and renames every owned child under the new parent name. The set '
        'arithmetic of _update_refs_to and the rewriting of dependent '
        'expressions are NOT decided.')
    ctx.not_decided = ['_update_refs_to set arithmetic',
                       'rewriting of dependent expressions on rename']
    fs = repo.cls(f'{SCH}.FlatSchema')
    cs = repo.cls(f'{SCH}.ChainedSchema')
    sm = repo.module(SCH)

    # ---- R1 ----------------------------------------------------------------
    ctx.floor('C04.R1', 10)
    repl = repo.find_method(fs.qualname, '_replace')
    init = repo.find_method(fs.qualname, '__init__')
    if repl is None or init is None:
        raise AnalysisError('FlatSchema._replace/__init__ not found')
    ctx.saw(repl)
    expr_stmts = {}
    for m in repo.modules_in('edb'):
        hits = [(a, k, n) for a, k, n in module_attr_writes(m)
                if a in FIELDS]
        if not hits:
            continue
        exprs = {id(e.value) for e in module_nodes(m, ast.Expr)}
        for attr, kind, node in hits:
            f = repo.enclosing_function(m, node)
            who = f.qualname if f else m.name
            if kind in ('update', 'pop', 'clear', 'setdefault', 'add',
                        'discard', 'remove', 'append', 'extend', 'insert',
                        'popitem', 'sort', 'reverse', 'appendleft',
                        'popleft', 'rotate'):
                # immutables.Map.update/... return new maps: a write only if
                # the receiver is mutated in place, i.e. never for the maps;
                # a discarded result is a (harmless) no-op but signals a
                # mistaken belief in mutation
                if kind == 'update' and id(node) not in exprs:
                    continue
                ctx.fail('C04.R1', f'{who}:{attr}.{kind}',
                         f'in-place mutator `{kind}` called on schema map '
                         f'{attr}', f'{m.rel()}:{node.lineno}')
                continue
            recv = None
            tg = node.targets if isinstance(node, ast.Assign) else (
                [node.target] if hasattr(node, 'target') else [])
            for t in tg:
                for tt in (t.elts if isinstance(t, (ast.Tuple, ast.List))
                           else [t]):
                    if isinstance(tt, ast.Attribute) and tt.attr == attr:
                        recv = norm(tt.value)
                    if isinstance(tt, ast.Subscript) and isinstance(
                            tt.value, ast.Attribute) and \
                            tt.value.attr == attr:
                        recv = norm(tt.value.value) + '[]'
            ok = False
            why = ''
            if f is init and recv == 'self' and kind == 'assign':
                ok, why = True, 'initialiser'
            elif f is repl and recv == 'new' and kind == 'assign':
                ok, why = True, 'fresh object in _replace'
            elif f is not None and f.name in ('__setstate__',) and \
                    f.cls is fs:
                ok, why = True, 'unpickling'
            ctx.ob('C04.R1', f'{who}:{attr}:{kind}', ok,
                   f'schema field {attr} written ({kind} via `{recv}`) '
                   f'outside FlatSchema.__init__/_replace: a published '
                   f'schema value would change', f'{m.rel()}:{node.lineno}',
                   sample=why)
    # _replace builds a fresh object and assigns all seven fields
    news = [n for n in walk_no_nested(repl.node) if isinstance(n, ast.Assign)
            and norm(n.targets[0]) == 'new']
    ok = len(news) == 1 and norm(news[0].value) == \
        'FlatSchema.__new__(FlatSchema)'
    ctx.ob('C04.R1', '_replace:fresh-object', ok,
           '_replace does not start from a fresh FlatSchema object '
           '(it would alias or copy caches of self)', repl.loc,
           sample=norm(news[0].value) if news else None)
    assigned = {n.targets[0].attr for n in walk_no_nested(repl.node)
                if isinstance(n, ast.Assign)
                and isinstance(n.targets[0], ast.Attribute)
                and norm(n.targets[0].value) == 'new'}
    ctx.ob('C04.R1', '_replace:assigns-every-field',
           assigned == set(FIELDS),
           f'_replace assigns {sorted(assigned)}; fields are '
           f'{sorted(FIELDS)}', repl.loc, sample=sorted(assigned))
    rets = [norm(r.value) for r in walk_no_nested(repl.node)
            if isinstance(r, ast.Return)]
    ctx.ob('C04.R1', '_replace:returns-new', rets == ['new'],
           f'_replace returns {rets}', repl.loc, sample=rets)
    # each kw: None -> inherit from self, else the given map
    for kw, attr in zip(KW, FIELDS):
        ok = any(isinstance(n, ast.If) and norm(n.test) == f'{kw} is None'
                 and norm(n.body[0]) == f'new.{attr} = self.{attr}'
                 and norm(n.orelse[0]) == f'new.{attr} = {kw}'
                 for n in walk_no_nested(repl.node))
        ctx.ob('C04.R1', f'_replace:{kw}', ok,
               f'_replace does not install {kw} into {attr} (or inherit it '
               f'when absent)', repl.loc, sample=f'{kw} -> {attr}')
    # bulk loader: single _replace call with all six maps
    rd = repo.functions.get('edb.schema.reflection.reader.parse_into')
    if rd is None:
        raise AnalysisError('reflection reader parse_into not found')
    rc = [c for c in ast.walk(rd.node) if isinstance(c, ast.Call)
          and norm(c.func) == 'schema._replace']
    ok = len(rc) == 1 and {k.arg for k in rc[0].keywords} == set(KW)
    ctx.ob('C04.R1', 'reader.parse_into:one-replace', ok,
           'the bulk loader does not hand all six maps to one _replace call '
           '(indexes could be published out of step)', rd.loc,
           sample=sorted(k.arg for k in rc[0].keywords) if rc else None)
    # .mutate() contexts are finished, never stored on self
    for m in (sm, rd.module):
        for w in module_nodes(m, ast.With):
            for item in w.items:
                if isinstance(item.context_expr, ast.Call) and norm(
                        item.context_expr.func).endswith('.mutate') and any(
                        a in norm(item.context_expr.func) for a in FIELDS):
                    var = norm(item.optional_vars)
                    f = repo.enclosing_function(m, w)
                    fin = [c for c in ast.walk(f.node)
                           if isinstance(c, ast.Call)
                           and norm(c.func) == f'{var}.finish']
                    ctx.ob('C04.R1', f'{f.qualname}:mutate-finished',
                           len(fin) == 1,
                           'a map mutation context is not closed with '
                           '.finish() exactly once', f'{m.rel()}:{w.lineno}',
                           sample=f'{var}.finish()')
    # ChainedSchema components assigned only in its __init__
    for m in repo.modules_in('edb'):
        for attr, kind, node in module_attr_writes(m):
            if attr in ('_base_schema', '_top_schema', '_global_schema') \
                    and kind in ('assign', 'aug', 'setitem', 'delitem',
                                 'del', 'augitem'):
                f = repo.enclosing_function(m, node)
                ok = f is not None and f.cls is cs and f.name == '__init__'
                ctx.ob('C04.R1', f'{f.qualname if f else m.name}:{attr}',
                       ok, f'ChainedSchema component {attr} reassigned '
                       f'outside its constructor',
                       f'{m.rel()}:{node.lineno}', sample='constructor only')

    # ---- R2 ------------------------------------------------------------------
    ctx.floor('C04.R2', 12)
    mutators = []
    for name, f in fs.methods.items():
        if any(isinstance(c, ast.Call) and norm(c.func) == 'self._replace'
               for c in ast.walk(f.node)):
            mutators.append(f)
    if len(mutators) < 5:
        raise AnalysisError('C04.R2: FlatSchema mutators not found')
    for f in sorted(mutators, key=lambda x: x.name):
        ctx.saw(f)
        txt_calls = [c for c in ast.walk(f.node) if isinstance(c, ast.Call)]
        data_ops = [c for c in txt_calls if isinstance(c.func, ast.Attribute)
                    and norm(c.func.value) == 'self._id_to_data'
                    and c.func.attr in ('set', 'delete')]
        kws: Dict[str, ast.AST] = {}
        for c in txt_calls:
            if norm(c.func) == 'self._replace':
                for k in c.keywords:
                    if k.arg:
                        kws[k.arg] = k.value
                    else:
                        # **updates : collect dict(...) / updates.update(
                        for d in txt_calls:
                            if call_name(d) == 'dict':
                                for kk in d.keywords:
                                    if kk.arg:
                                        kws[kk.arg] = kk.value
        if f.name == 'delist':
            ok = set(kws) == {'name_to_id', 'shortname_to_id',
                              'globalname_to_id'} and not data_ops
            ctx.ob('C04.R2', 'delist:name-index-only', ok,
                   'delist (hide a name without removing the object) now '
                   'touches more than the name index', f.loc,
                   sample='frozen exception: name index only, by design')
            continue
        if not data_ops:
            continue
        kind = 'delete' if any(c.func.attr == 'delete' for c in data_ops) \
            else ('insert' if f.name == 'add_raw' else 'update')
        need = set(KW) if kind in ('delete', 'insert') else \
            set(KW) - {'id_to_type'}
        missing = need - set(kws)
        ctx.ob('C04.R2', f'{f.name}:indexes-passed', not missing,
               f'{f.name} ({kind}) derives a new _id_to_data but does not '
               f'pass {sorted(missing)} to _replace: that index keeps a '
               f'stale entry', f.loc, sample=sorted(kws))

        def source_of(var_expr: ast.AST) -> List[ast.Call]:
            """calls whose result is bound to the name passed as kw."""
            if isinstance(var_expr, ast.Call):
                return [var_expr]
            nm = norm(var_expr)
            out = []
            for n in walk_no_nested(f.node):
                if isinstance(n, ast.Assign):
                    for t in n.targets:
                        names = [norm(x) for x in (
                            t.elts if isinstance(t, ast.Tuple) else [t])]
                        if nm in names and isinstance(n.value, ast.Call):
                            out.append(n.value)
            return out
        # name indexes from _update_obj_name
        for k in ('name_to_id', 'shortname_to_id', 'globalname_to_id'):
            if k not in kws:
                continue
            srcs = source_of(kws[k])
            ok = bool(srcs) and all(norm(c.func) == 'self._update_obj_name'
                                    for c in srcs)
            if ok and kind == 'delete':
                ok = all(norm(c.args[3]) == 'None' and norm(c.args[2])
                         != 'None' for c in srcs)
            if ok and kind == 'insert':
                ok = all(norm(c.args[2]) == 'None' and norm(c.args[3])
                         != 'None' for c in srcs)
            ctx.ob('C04.R2', f'{f.name}:{k}', ok,
                   f'{f.name}: {k} passed to _replace does not come from '
                   f'_update_obj_name with the {"old name removed" if kind == "delete" else "new name added" if kind == "insert" else "old and new name"}',
                   f.loc, sample=[norm(c)[:60] for c in srcs][:1])
        if 'refs_to' in kws:
            srcs = source_of(kws['refs_to'])
            ok = bool(srcs) and all(norm(c.func) == 'self._update_refs_to'
                                    for c in srcs)
            if ok and kind == 'delete':
                ok = all(norm(c.args[3]) == 'None' for c in srcs)
            if ok and kind == 'insert':
                ok = all(norm(c.args[2]) == 'None' for c in srcs)
            # `refs_to = None` only under a not-object-reference test
            nones = [n for n in walk_no_nested(f.node)
                     if isinstance(n, ast.Assign)
                     and norm(n.targets[0]) == 'refs_to'
                     and norm(n.value) == 'None']
            g = CFG(f.node)
            # ... or under a test that compares the old reference set with
            # the new one (nothing to update when they agree / are both
            # empty): it has to mention both arguments of the update call
            def _names(e):
                return {x.id for x in ast.walk(e) if isinstance(x, ast.Name)}
            old_n, new_n = set(), set()
            for c in srcs:
                if len(c.args) >= 4:
                    old_n |= _names(c.args[2])
                    new_n |= _names(c.args[3])
            old_n, new_n = old_n - new_n, new_n - old_n
            for n in nones:
                nid = g.nodes_of(n)
                guards = [t.id for t in g.nodes if t.kind == 'test' and
                          norm(t.ast) in ('not is_object_ref',
                                          'not object_ref_fields')]
                both = [t.id for t in g.nodes if t.kind == 'test'
                        and old_n and new_n
                        and _names(t.ast) & old_n and _names(t.ast) & new_n]
                ok = ok and bool(nid) and (any(
                    g.edge_dominates(t, 'T', nid[0]) for t in guards) or any(
                    g.edge_dominates(t, lab, nid[0]) for t in both
                    for lab in ('T', 'F')))
            ctx.ob('C04.R2', f'{f.name}:refs_to', ok,
                   f'{f.name}: the reverse-reference index passed to '
                   f'_replace does not come from _update_refs_to with the '
                   f'right old/new sets, or is skipped without the '
                   f'not-an-object-reference test', f.loc,
                   sample=[norm(c)[:70] for c in srcs][:1])
        if kind in ('delete', 'insert') and 'id_to_type' in kws:
            v = norm(kws['id_to_type'])
            want = 'self._id_to_type.delete(' if kind == 'delete' else \
                'self._id_to_type.set('
            ctx.ob('C04.R2', f'{f.name}:id_to_type', v.startswith(want),
                   f'{f.name}: id_to_type is `{v[:50]}`', f.loc, sample=v[:50])
        if kind == 'update':
            # the name index is refreshed exactly when the field is `name`
            g = CFG(f.node)
            calls = [n.id for n in g.nodes if any(
                norm(c.func) == 'self._update_obj_name'
                for c in g.node_calls(n))]
            tests = [t.id for t in g.nodes if t.kind == 'test'
                     and norm(t.ast) == "fieldname == 'name'"]
            ok = bool(calls) and bool(tests) and all(
                any(g.edge_dominates(t, 'T', c) for t in tests)
                for c in calls)
            ctx.ob('C04.R2', f'{f.name}:name-field-refreshes-index', ok,
                   f'{f.name}: writing the `name` field does not refresh '
                   f'the name indexes', f.loc,
                   sample="if fieldname == 'name': _update_obj_name(...)")

    # ---- R3 ----------------------------------------------------------------------
    ctx.floor('C04.R3', 3)
    n_del = 0
    for m in repo.modules_in('edb'):
        for meth in ('delete', 'discard', '_delete'):
            for c in module_calls(m).get(meth, []):
                if not isinstance(c.func, ast.Attribute):
                    continue
                recv = norm(c.func.value)
                if not (recv == 'schema' or recv.endswith('_schema')
                        or recv == 'self' and m is sm):
                    continue
                if len(c.args) != 1 or c.keywords:
                    continue
                f = repo.enclosing_function(m, c)
                who = f.qualname if f else m.name
                if m is sm and f is not None and f.cls in (fs, cs):
                    continue      # forwarding inside the schema classes
                n_del += 1
                ok = who in ALLOWED_DELETERS
                ctx.ob('C04.R3', f'{who}:{recv}.{meth}', ok,
                       f'{who} removes an object from the schema directly: '
                       f'only DeleteObject._delete_finalize (which checks '
                       f'referrers) may', f'{m.rel()}:{c.lineno}',
                       sample=ALLOWED_DELETERS.get(who))
    if n_del < 1:
        raise AnalysisError('C04.R3: no schema.delete call site found')
    df = repo.func(f'{DELTA}.DeleteObject._delete_finalize')
    ctx.saw(df)
    g = CFG(df.node)
    dels = [n.id for n in g.nodes if any(
        norm(c.func) == 'schema.delete' for c in g.node_calls(n))]
    guard = [t for t in g.nodes if t.kind == 'test' and norm(t.ast) ==
             'not context.canonical and (not '
             'context.disable_dep_verification)']
    if not guard:
        guard = [t for t in g.nodes if t.kind == 'test'
                 and 'context.canonical' in norm(t.ast)
                 and 'disable_dep_verification' in norm(t.ast)]
    ok = len(dels) == 1 and len(guard) == 1
    if ok:
        gt = guard[0]
        ts = [s for s, lab in gt.succ if lab == 'T']
        inside = g.reachable(ts) | set(ts)
        has_ref = any('get_referrers' in norm(g.nodes[x].ast)
                      for x in inside if g.nodes[x].ast is not None)
        raises = [x for x in inside if isinstance(g.nodes[x].ast, ast.Raise)
                  and 'SchemaError' in norm(g.nodes[x].ast)]
        # the delete is after the guard block on every path
        ok = has_ref and bool(raises) and g.always_before(dels[0], [gt.id])
        # the raise is guarded by the collected blocking refs: a test on a
        # local that is built from the referrers (assigned from an
        # expression over them, or appended to while scanning them)
        region_txt = ' '.join(norm(g.nodes[x].ast) for x in inside
                              if g.nodes[x].ast is not None)

        def from_refs(name: str, depth: int = 3) -> bool:
            for n in ast.walk(df.node):
                if isinstance(n, ast.Assign) and any(
                        isinstance(t, ast.Name) and t.id == name
                        for t in n.targets):
                    v = norm(n.value)
                    if 'get_referrers' in v or 'is_blocking_ref' in v:
                        return True
                    if depth and any(
                            from_refs(x.id, depth - 1)
                            for x in ast.walk(n.value)
                            if isinstance(x, ast.Name) and x.id != name):
                        return True
                if isinstance(n, ast.Call) and isinstance(
                        n.func, ast.Attribute) and n.func.attr in (
                        'append', 'add', 'extend') and norm(
                        n.func.value) == name:
                    # appended to under the blocking-ref test
                    for t in g.nodes:
                        if t.kind == 'test' and 'is_blocking_ref' in norm(
                                t.ast):
                            return True
            return False
        rt = [t for t in g.nodes if t.kind == 'test' and t.id in inside
              and any(isinstance(x, ast.Name) and from_refs(x.id)
                      for x in ast.walk(t.ast.test if hasattr(t.ast, 'test')
                                        else t.ast))]
        ok = ok and bool(rt) and all(
            any(g.edge_dominates(t.id, 'T', r) for t in rt) for r in raises)
        # blocking refs are collected unless being deleted themselves
        ok = ok and 'is_blocking_ref' in region_txt and \
            '_is_deleting_ref' in region_txt
    ctx.ob('C04.R3', '_delete_finalize:referrer-check', ok,
           'the object is deleted on a path that has not checked its '
           'referrers (outside canonical / disabled verification mode), or '
           'blocking referrers no longer raise', df.loc,
           sample='get_referrers -> blocking refs -> SchemaError; then '
                  'schema.delete')

    # ---- R4 ----------------------------------------------------------------------
    ctx.floor('C04.R4', 4)
    for name in ('get_by_id', 'get_referrers', 'get_global', '_get_by_name'
                 if '_get_by_name' in fs.methods else 'get_by_id'):
        f = fs.methods.get(name)
        if f is None:
            continue
        # reads schema maps only through self
        other = set()
        for n in ast.walk(f.node):
            if isinstance(n, ast.Attribute) and n.attr in FIELDS:
                if norm(n.value) != 'self':
                    other.add(norm(n))
        ctx.ob('C04.R4', f'{name}:reads-own-maps', not other,
               f'{name} reads schema maps of another object: {sorted(other)}',
               f.loc, sample='self._* only')
    # memoisation: per-instance method cache only
    for c in (fs, cs):
        for name, f in c.methods.items():
            for d in f.node.decorator_list:
                dn = norm(d.func) if isinstance(d, ast.Call) else norm(d)
                if 'cache' in dn:
                    ok = dn in ('lru.lru_method_cache', 'lru.method_cache')
                    ctx.ob('C04.R4', f'{c.name}.{name}:cache={dn}', ok,
                           f'{c.name}.{name} is memoised with {dn}: a '
                           f'process-global cache on a schema method can '
                           f'answer from another schema version', f.loc,
                           sample='per-instance cache')
    for name, f in sm.functions.items():
        for d in f.node.decorator_list:
            dn = norm(d.func) if isinstance(d, ast.Call) else norm(d)
            if 'lru_cache' in dn or dn.endswith('.cache'):
                ps = f.params()
                ok = bool(ps) and ps[0] == 'schema'
                ctx.ob('C04.R4', f'{name}:global-cache-keyed-by-schema', ok,
                       f'module-level cached lookup {name} is not keyed by '
                       f'the schema value', f.loc,
                       sample=f'lru_cache({", ".join(ps)})')

    # ---- R5 rename ----------------------------------------------------------------
    ctx.floor('C04.R5', 3)
    ro = repo.cls(f'{DELTA}.RenameObject')
    ab = ro.methods.get('_alter_begin')
    cn = ro.methods.get('_canonicalize')
    ai = ro.methods.get('_alter_innards')
    if None in (ab, cn, ai):
        raise AnalysisError('RenameObject hooks not found')
    ctx.saw(ab)
    ctx.saw(cn)
    sets = [c for c in ast.walk(ab.node) if isinstance(c, ast.Call)
            and norm(c.func) == 'self.set_attribute_value'
            and c.args and norm(c.args[0]) == "'name'"]
    ok = len(sets) == 1 and norm(kwarg(sets[0], 'value')) == \
        'self.new_name' and norm(kwarg(sets[0], 'orig_value')) == \
        'self.classname'
    if ok:
        g = CFG(ab.node)
        nid = [n.id for n in g.nodes if sets[0] in g.node_calls(n)]
        t = [x.id for x in g.nodes if x.kind == 'test'
             and norm(x.ast) == 'not context.canonical']
        ok = bool(nid) and any(g.edge_dominates(tt, 'T', nid[0])
                               for tt in t)
        # and every non-canonical normal path sets it
        ok = ok and all(g.always_after(tt, nid, exits={g.exit},
                                       first_labels={'T'}) for tt in t
                        if g.edge_dominates(tt, 'T', nid[0]))
    ctx.ob('C04.R5', 'RenameObject._alter_begin:sets-name', ok,
           'a rename does not set the object\'s name to new_name (from '
           'classname) outside canonical mode', ab.loc,
           sample="set_attribute_value('name', value=new_name, "
                  "orig_value=classname)")
    ok = any(isinstance(r, ast.Return) and 'super()._alter_begin(' in
             norm(r) for r in ast.walk(ab.node))
    ctx.ob('C04.R5', 'RenameObject._alter_begin:calls-super', ok,
           'rename does not continue with the generic alter (the name field '
           'update would not be applied)', ab.loc, sample='super()')
    from .. import shapes as SH
    from ..model import inline_locals
    # every refdict child is renamed under the new parent name: a loop over
    # get_refdicts(), inside it a rename branch per child whose new name is
    # derived from self.new_name (qualifier and module), added to self
    rd_loops = [n for n in ast.walk(cn.node) if isinstance(n, ast.For)
                and 'get_refdicts()' in norm(n.iter)]
    if not rd_loops:
        raise AnalysisError('C04.R5: _canonicalize no longer iterates the '
                            'refdicts of the metaclass')
    branches = SH.calls_in(rd_loops[0].body, 'init_rename_branch')
    ok = bool(branches)
    for b in branches:
        newname = inline_locals(cn.node, b.args[1]) if len(b.args) > 1 \
            else ''
        # the new child name mentions the new parent name twice: as module
        # and (through the qualifier list) in the specialised name
        quals_from_new = any(
            isinstance(a, ast.Assign) and isinstance(
                a.targets[0], ast.Subscript) and 'self.new_name' in
            norm(a.value) for a in ast.walk(rd_loops[0]))
        ok = ok and 'self.new_name.module' in newname and quals_from_new
        added = any(isinstance(c, ast.Call) and norm(c.func) == 'self.add'
                    and any(x is b for x in ast.walk(c))
                    for c in ast.walk(rd_loops[0]))
        ok = ok and added
    ctx.ob('C04.R5', 'RenameObject._canonicalize:children', ok,
           'owned children are not renamed under the new parent name '
           '(their qualified names would keep the old parent: stale '
           'name-index entries)', cn.loc,
           sample='quals[0] = new_name for every refdict child')
    ok = 'self._canonicalize(schema, context, self.scls)' in norm(ai.node) \
        and 'not context.canonical' in norm(ai.node)
    ctx.ob('C04.R5', 'RenameObject._alter_innards:canonicalizes', ok,
           'rename no longer canonicalises (propagates to children) in '
           'non-canonical mode', ai.loc, sample='_canonicalize in innards')

    _r6(repo, ctx)
    _r7(repo, ctx)
    _r8(repo, ctx)
    _r9(repo, ctx)
    _r10(repo, ctx)
    _r11(repo, ctx)
    _r12(repo, ctx)
    _r13(repo, ctx)
    _r14(repo, ctx)


OBJS = 'edb.schema.objects'
MUTATORS = {'append', 'extend', 'insert', 'pop', 'remove', 'sort', 'reverse',
            'clear', 'update', 'add', 'discard', 'setdefault', 'popitem',
            '__setitem__', '__delitem__'}
COPIERS = {'list', 'tuple', 'set', 'frozenset', 'dict', 'sorted', 'copy',
           'deepcopy'}


# writes to a collection slot outside __init__ that were audited
SLOT_WRITE_OK = {
    'edb.schema.objects.ObjectSet.merge_values:result._ids':
        'in-place union of two non-empty ObjectSet values: stored values '
        'carry tuple ids, for which |= raises TypeError before anything is '
        'mutated, and no schema class merges two non-empty ObjectSet fields '
        '(triage/objectset_merge_inplace.py runs the real code)',
}


def _lazy_fill(fn: FuncInfo, target: ast.AST, stmt: ast.AST) -> bool:
    """`if self.x is None: self.x = ...` -- a write-once cache fill."""
    g = CFG(fn.node)
    ids = g.nodes_of(stmt)
    tests = [n.id for n in g.nodes if n.kind == 'test'
             and norm(n.ast) in (f'{norm(target)} is None',
                                 f'({norm(target)} is None)')]
    return bool(ids) and any(g.edge_dominates(t, 'T', ids[0]) for t in tests)


def _memoised(fn: FuncInfo) -> bool:
    for d in fn.node.decorator_list:
        t = norm(d)
        if 'lru_cache' in t or t in ('functools.cache', 'cache'):
            return True
    return False


def _mutable_return(fn: FuncInfo) -> bool:
    a = norm(fn.node.returns) if fn.node.returns is not None else ''
    head = a.split('[')[0].split('.')[-1]
    if head in ('List', 'list', 'Dict', 'dict', 'Set', 'set', 'MutableSet',
                'MutableMapping', 'MutableSequence', 'bytearray',
                'DefaultDict', 'OrderedDict'):
        return True
    if a:
        return False
    for r in ast.walk(fn.node):
        if isinstance(r, ast.Return) and isinstance(
                r.value, (ast.List, ast.ListComp, ast.Dict, ast.DictComp,
                          ast.Set, ast.SetComp)):
            return True
    return False


def _mutations_of(fnode: ast.AST, var: str):
    """In-place mutations of the local `var` inside fnode."""
    for n in ast.walk(fnode):
        if isinstance(n, (ast.Assign, ast.AugAssign, ast.Delete)):
            tg = n.targets if isinstance(n, (ast.Assign, ast.Delete)) \
                else [n.target]
            for t in tg:
                if isinstance(t, ast.Subscript) and norm(t.value) == var:
                    yield n, f'{var}[...] assigned'
                if isinstance(n, ast.AugAssign) and norm(t) == var:
                    yield n, f'{var} {type(n.op).__name__}= (in place)'
        elif isinstance(n, ast.Call) and isinstance(n.func, ast.Attribute) \
                and n.func.attr in MUTATORS and norm(n.func.value) == var:
            yield n, f'{var}.{n.func.attr}()'


def _stored_taint(fn_node: ast.AST) -> Set[str]:
    """local names that (transitively) hold values read from the stored
    data map of this schema version"""
    def has(e, names):
        t = norm(e)
        return 'self._id_to_data' in t or any(
            isinstance(x, ast.Name) and x.id in names for x in ast.walk(e))
    tainted: Set[str] = set()
    changed = True
    while changed:
        changed = False
        for n in ast.walk(fn_node):
            tg, val = [], None
            if isinstance(n, ast.Assign):
                tg, val = n.targets, n.value
            elif isinstance(n, (ast.AugAssign, ast.AnnAssign)) and \
                    n.value is not None:
                tg, val = [n.target], n.value
            elif isinstance(n, ast.For):
                tg, val = [n.target], n.iter
            if val is None or not has(val, tainted):
                continue
            for t in tg:
                base = t
                while isinstance(base, (ast.Subscript, ast.Attribute)):
                    base = base.value
                for x in ([base] if isinstance(base, ast.Name) else [
                        y for y in ast.walk(t) if isinstance(y, ast.Name)]):
                    if x.id not in tainted and x.id != 'self':
                        tainted.add(x.id)
                        changed = True
    return tainted


def _r7(repo: Repo, ctx) -> None:
    """old / new roles of the index maintenance helpers: the `old` argument
    comes from what this version stores, the `new` one from the caller."""
    ctx.floor('C04.R7', 6)
    fs = repo.cls(f'{SCH}.FlatSchema')
    for f in sorted(fs.methods.values(), key=lambda x: x.name):
        calls = [c for c in ast.walk(f.node) if isinstance(c, ast.Call)
                 and norm(c.func) in ('self._update_refs_to',
                                      'self._update_obj_name')
                 and len(c.args) >= 4]
        if not calls:
            continue
        ctx.saw(f)
        taint = _stored_taint(f.node)

        def role(e):
            if norm(e) == 'None':
                return 'none'
            return 'stored' if 'self._id_to_data' in norm(e) or any(
                isinstance(x, ast.Name) and x.id in taint
                for x in ast.walk(e)) else 'incoming'
        for c in calls:
            helper = norm(c.func).split('.')[-1]
            old, new = role(c.args[2]), role(c.args[3])
            ok = old in ('stored', 'none') and new in ('incoming', 'none') \
                and (old, new) != ('none', 'none')
            ctx.ob('C04.R7', f'{f.name}:{helper}:roles', ok,
                   f'{f.name} calls {helper}(.., old={norm(c.args[2])}, '
                   f'new={norm(c.args[3])}): the old argument is {old} and '
                   f'the new one {new}; the helper removes the `old` '
                   f'entries and adds the `new` ones, so with the roles '
                   f'exchanged a cleared reference / name stays in the '
                   f'index (stale referrer, LookupError after its owner is '
                   f'dropped) and a new one is never recorded', f.loc,
                   sample=f'old={old} new={new}')


LAYERS = ('_base_schema', '_top_schema', '_global_schema')
# ChainedSchema queries whose answer is the union over the three layers
AGGREGATES = ('get_referrers', 'get_referrers_ex', '_get_object_ids')


def _r8(repo: Repo, ctx) -> None:
    """A chained schema answers reverse-reference queries from all three
    layers: a reference may cross layers (a user-schema extension refers to
    a global extension package)."""
    from ..model import inline_locals
    ctx.floor('C04.R8', 3)
    cs = repo.cls(f'{SCH}.ChainedSchema')
    for name in AGGREGATES:
        f = cs.methods.get(name)
        if f is None:
            raise AnalysisError(f'ChainedSchema.{name} not found')
        ctx.saw(f)
        rets = [r for r in walk_no_nested(f.node)
                if isinstance(r, ast.Return) and r.value is not None]
        if not rets:
            raise AnalysisError(f'ChainedSchema.{name}: no return')
        for r in rets:
            flat = inline_locals(f.node, r.value, 4)
            miss = [l for l in LAYERS if f'self.{l}' not in flat]
            ctx.ob('C04.R8', f'ChainedSchema.{name}:all-layers@L'
                   f'{r.lineno - f.node.lineno}', not miss,
                   f'ChainedSchema.{name} can answer without consulting '
                   f'{miss}: referrers living in that layer are invisible, '
                   f'so the referrer check lets an object be dropped while '
                   f'something in another layer still points at it',
                   f.loc, sample='union over base, top and global')


def _r9(repo: Repo, ctx) -> None:
    """A name enters the name index only past the "already exists" test
    (and, for qualified names, the module-exists test)."""
    ctx.floor('C04.R9', 2)
    f = repo.func(f'{SCH}.FlatSchema._update_obj_name')
    ctx.saw(f)
    ps = f.params()
    newp = ps[4] if len(ps) > 4 else 'new_name'
    g = CFG(f.node)
    writers = []
    for n in g.nodes:
        if n.kind != 'stmt' or n.ast is None:
            continue
        for x in ast.walk(n.ast):
            if isinstance(x, ast.Call) and isinstance(x.func, ast.Attribute) \
                    and x.func.attr == 'set' and x.args and norm(
                        x.func.value) in ('name_to_id', 'globalname_to_id'):
                k = norm(x.args[0])
                if newp in k or k == 'key':
                    writers.append((n.id, norm(x.func.value), k))
            if isinstance(n.ast, ast.Assign):
                for t in n.ast.targets:
                    if isinstance(t, ast.Subscript) and newp in norm(t.slice) \
                            and x is n.ast:
                        writers.append((n.id, '<mutation>', norm(t.slice)))
    if len(writers) < 2:
        raise AnalysisError('C04.R9: name-index writers of _update_obj_name '
                            'not found')
    for nid, mp, key in writers:
        tests = [t.id for t in g.nodes if t.kind == 'test' and isinstance(
            t.ast, ast.Compare) and isinstance(t.ast.ops[0], ast.In)
            and norm(t.ast.left) == key and (
                mp == '<mutation>' or norm(t.ast.comparators[0]) == mp)]
        ok = any(g.edge_dominates(t, 'F', nid) for t in tests)
        ctx.ob('C04.R9', f'_update_obj_name:{mp}[{key}]:exists-check', ok,
               f'_update_obj_name stores {key} into {mp} on a path that did '
               f'not take the false branch of `{key} in ...` (the branch '
               f'that raises "already exists"): renaming onto a taken name '
               f'silently re-points the name at another object; the former '
               f'owner stays in the data maps, unreachable by name',
               f.loc, sample=f'{key} in {mp} -> raise, else set')
        if mp == 'name_to_id' or mp == '<mutation>':
            mt = [t.id for t in g.nodes if t.kind == 'test'
                  and 'has_module' in norm(t.ast)]
            ok = any(g.edge_dominates(t, 'F', nid) for t in mt)
            ctx.ob('C04.R9', f'_update_obj_name:{mp}[{key}]:module-check',
                   ok, f'a qualified name is stored without the '
                   f'module-exists test', f.loc,
                   sample='unknown module -> raise')


def _r10(repo: Repo, ctx) -> None:
    ctx.floor('C04.R10', 15)
    # (a) a command is applied to the schema its result is bound to: a
    #     scratch copy never becomes the result
    n = 0
    for m in repo.modules_in('edb.schema'):
        for f in repo._funcs_of(m):
            for a in walk_no_nested(f.node):
                if not (isinstance(a, ast.Assign) and len(a.targets) == 1
                        and isinstance(a.targets[0], ast.Name)
                        and isinstance(a.value, ast.Call)
                        and isinstance(a.value.func, ast.Attribute)
                        and a.value.func.attr == 'apply'
                        and a.value.args
                        and isinstance(a.value.args[0], ast.Name)
                        and a.targets[0].id in f.params()
                        and kwarg(a.value, 'schema') is None
                        and norm(a.value.func.value) != 'sd'
                        and 'schema' in a.targets[0].id):
                    continue
                n += 1
                ok = a.value.args[0].id == a.targets[0].id
                if not ok:
                    ctx.saw(f)
                ctx.ob('C04.R10', f'{f.qualname}:apply-threads-'
                       f'{a.targets[0].id}@L{a.lineno - f.node.lineno}', ok,
                       f'{f.qualname}: `{norm(a)[:60]}` applies the command '
                       f'to `{a.value.args[0].id}` but continues with the '
                       f'result as `{a.targets[0].id}`: a scratch schema '
                       f'(names delisted, objects half removed) becomes the '
                       f'schema of record, so names and objects disagree',
                       f.loc, sample='X = cmd.apply(X, context)',
                       nontrivial=not ok)
    if n < 15:
        raise AnalysisError(f'C04.R10: only {n} threaded apply sites')
    # (b) a property blocks the drop of what it refers to unless it is a
    #     link end point by descent (not by name)
    ib = repo.func('edb.schema.properties.Property.is_blocking_ref')
    ctx.saw(ib)
    rets = [norm(r.value) for r in ast.walk(ib.node)
            if isinstance(r, ast.Return) and r.value is not None]
    ok = rets == ['not self.is_endpoint_pointer(schema)']
    ep = repo.func('edb.schema.pointers.Pointer.is_endpoint_pointer')
    t = norm(ep.node)
    ok2 = "'std::source'" in t and "'std::target'" in t and 'issubclass' in t
    ctx.ob('C04.R10', 'Property.is_blocking_ref:endpoints-by-descent',
           ok and ok2,
           f'Property.is_blocking_ref returns {rets}: an ordinary property '
           f'that is merely *named* source / target must still block the '
           f'drop of the type it refers to, otherwise the drop is accepted '
           f'and the property points at a missing object', ib.loc,
           sample='not self.is_endpoint_pointer(schema)')


def _r6(repo: Repo, ctx) -> None:
    ctx.floor('C04.R6', 6)
    # (a) memoised functions handing out a mutable container: every caller
    #     copies before mutating
    memo = {q: f for q, f in repo.functions.items()
            if q.startswith(('edb.schema.', 'edb.common.', 'edb.edgeql.',
                             'edb.ir.', 'edb.pgsql.', 'edb.server.compiler.'))
            and _memoised(f) and _mutable_return(f)}
    if 'edb.schema.name.quals_from_fullname' not in memo:
        raise AnalysisError('C04.R6: quals_from_fullname is no longer a '
                            'memoised list-returning function; re-derive '
                            'the rule instances')
    for q, mf in sorted(memo.items()):
        ctx.saw(mf)
        short = q.split('.')[-1]
        sites = 0
        for mn, m in repo.modules.items():
            if not mn.startswith('edb.') or mn.startswith('edb.tools'):
                continue
            if short not in m.src:
                continue
            for f in repo._funcs_of(m):
                for n in walk_no_nested(f.node):
                    if not isinstance(n, ast.Assign) or len(n.targets) != 1 \
                            or not isinstance(n.targets[0], ast.Name):
                        continue
                    v = n.value
                    if not (isinstance(v, ast.Call) and (call_name(v) or ''
                                                         ).split('.')[-1]
                            == short):
                        continue
                    sites += 1
                    var = n.targets[0].id
                    muts = list(_mutations_of(f.node, var))
                    ctx.ob('C04.R6', f'{f.qualname}:{short}->{var}',
                           not muts,
                           f'{f.qualname} mutates the list returned by the '
                           f'memoised {q} in place '
                           f'({muts[0][1] if muts else ""}): the cached '
                           f'value is shared by every later call for the '
                           f'same name, so names derived for unrelated '
                           f'schema versions change', f.loc,
                           sample=f'{var} = {norm(v)[:50]} (not mutated)')
        ctx.ob('C04.R6', f'{q}:call-sites', True, loc=mf.loc,
               sample=f'{sites} direct-binding call sites',
               nontrivial=False)
    # (b) ObjectCollection instances are shared by every schema version
    #     (schema_restore is memoised, and the instance sits in the data
    #     tuple of all versions): their slots are written in __init__ only
    oc = repo.cls(f'{OBJS}.ObjectCollection')
    slots = {'_ids', '_keys'}
    restore = oc.methods.get('schema_restore')
    ctx.ob('C04.R6', 'ObjectCollection.schema_restore:memoised',
           restore is not None and _memoised(restore),
           'precondition of this rule changed', oc.loc,
           sample='lru_cache', nontrivial=False)
    for mn, m in repo.modules.items():
        if not mn.startswith('edb.schema'):
            continue
        for f in repo._funcs_of(m):
            for n in walk_no_nested(f.node):
                tg = []
                if isinstance(n, ast.Assign):
                    tg = n.targets
                elif isinstance(n, (ast.AugAssign, ast.AnnAssign)):
                    tg = [n.target]
                for t in tg:
                    if isinstance(t, ast.Attribute) and t.attr in slots:
                        ok = f.name == '__init__' and norm(t.value) == 'self'
                        key = f'{f.qualname}:{norm(t)}'
                        if not ok and _lazy_fill(f, t, n):
                            ok = True
                        if not ok and key in SLOT_WRITE_OK:
                            ctx.ob('C04.R6', key, True, loc=f.loc,
                                   sample='audited: ' + SLOT_WRITE_OK[key],
                                   nontrivial=False)
                            continue
                        ctx.ob('C04.R6', f'{f.qualname}:{norm(t)}', ok,
                               f'{f.qualname} rebinds {norm(t)} on an '
                               f'existing collection object: that object is '
                               f'the stored field value of earlier schema '
                               f'versions too (and of the base it was read '
                               f'from), so they change with it', f.loc,
                               sample=f'{norm(n)[:60]}')
    # (c) the refresh of a referrer's child index recomputes the keys
    oib = repo.cls(f'{OBJS}.ObjectIndexBase')
    cr = oib.methods.get('create')
    rc = repo.func(f'{OBJS}.Object.refresh_classref')
    if cr is None:
        raise AnalysisError('ObjectIndexBase.create not found')
    reuse = any(isinstance(n, ast.If) and 'isinstance(data, ObjectIndexBase)'
                in norm(n.test) and any('_keys' in norm(b) for b in n.body)
                for n in ast.walk(cr.node))
    calls = [c for c in ast.walk(rc.node) if isinstance(c, ast.Call)
             and isinstance(c.func, ast.Attribute) and c.func.attr == 'create'
             and len(c.args) >= 2]
    if len(calls) != 1:
        raise AnalysisError('C04.R6: refresh_classref no longer rebuilds the '
                            'collection through .create')
    arg = calls[0].args[1]
    stored = {n.targets[0].id for n in ast.walk(rc.node)
              if isinstance(n, ast.Assign) and isinstance(
                  n.targets[0], ast.Name) and isinstance(n.value, ast.Call)
              and 'get_' in norm(n.value.func) and 'field_value' in
              norm(n.value.func)}
    ok = not (reuse and isinstance(arg, ast.Name) and arg.id in stored)
    ctx.ob('C04.R6', 'refresh_classref:recomputes-keys', ok,
           'refresh_classref hands the stored index itself to '
           'ObjectIndexBase.create, which then reuses its cached _keys: the '
           'refresh after a rename is a no-op and the parent keeps resolving '
           'the child by its old name', rc.loc,
           sample=f'create(schema, {norm(arg)})')
    rr = repo.functions.get(
        'edb.schema.referencing.RenameReferencedInheritingObject.'
        '_alter_begin')
    if rr is None:
        raise AnalysisError('RenameReferencedInheritingObject._alter_begin '
                            'not found')
    g = CFG(rr.node)
    ref = [n.id for n in g.nodes if any(
        isinstance(c.func, ast.Attribute) and c.func.attr ==
        'refresh_classref' for c in g.node_calls(n))]
    t = [n.id for n in g.nodes if n.kind == 'test'
         and norm(n.ast) == 'referrer_ctx']
    ok = bool(ref) and bool(t) and g.always_after(
        t[0], ref, exits={g.exit}, first_labels={'T'})
    ctx.ob('C04.R6', 'RenameReferencedInheritingObject:refreshes-referrer',
           ok, 'renaming an owned child does not refresh the referrer\'s '
           'name-keyed index on every path', rr.loc,
           sample='referrer.refresh_classref(schema, refdict.attr)')


def _r11(repo: Repo, ctx) -> None:
    """C04.R11 three more index / reference disciplines.

    (a) threaded accumulators: a FlatSchema method that takes a working copy
        of an index (`x = self._x`) and rebinds it step by step reads that
        index only through the working copy afterwards; going back to
        `self._x` discards the updates already made in this call (a rename
        then leaves the old short-name entry behind).
    (b) a collection's name is derived from its own data the same way
        everywhere: when RenameType re-derives a tuple's name it takes the
        element *names* from get_element_types(), as Tuple.create does, not
        positions from enumerate(get_subtypes()).
    (c) SET TYPE on a link updates the link's own `@target` property whenever
        the command is not canonical -- also for the propagated copies that
        run on inherited links; otherwise the child's @target keeps pointing
        at the old type, which a later DROP TYPE leaves dangling."""
    ctx.floor('C04.R11', 4)
    fs = repo.cls('edb.schema.schema.FlatSchema')
    n = 0
    for mname, f in sorted(fs.methods.items()):
        work = {}
        for a in f.node.body:
            if isinstance(a, ast.Assign) and len(a.targets) == 1 and \
                    isinstance(a.targets[0], ast.Name) and isinstance(
                    a.value, ast.Attribute) and norm(a.value.value) == \
                    'self' and a.value.attr.startswith('_'):
                work[a.value.attr] = (a.targets[0].id, a)
        for attr, (loc, first) in work.items():
            rebinds = [x for x in ast.walk(f.node) if isinstance(x, ast.Assign)
                       and x is not first and any(
                           isinstance(t, ast.Name) and t.id == loc
                           for t in x.targets)]
            if not rebinds:
                continue
            n += 1
            ctx.saw(f)
            stale = [x.lineno for x in ast.walk(f.node)
                     if isinstance(x, ast.Attribute) and x.attr == attr
                     and norm(x.value) == 'self' and x is not first.value
                     and isinstance(x.ctx, ast.Load)]
            ctx.ob('C04.R11', f'FlatSchema.{mname}:{attr}-through-working-copy',
                   not stale,
                   f'FlatSchema.{mname} updates its working copy `{loc}` of '
                   f'self.{attr} and then reads self.{attr} again (line '
                   f'{stale[:2]}): the updates made so far in this call are '
                   f'lost, e.g. the removal of the old short name on a '
                   f'rename, so a lookup by the old name still finds the '
                   f'object (or, after a drop, an id that no longer exists)',
                   f.loc, sample=f'{loc} = self.{attr}; only {loc} after')
    if n < 3:
        raise AnalysisError('C04.R11: threaded index copies not found')
    # (b)
    rt = repo.cls('edb.schema.types.RenameType')
    cz = rt.methods.get('_canonicalize')
    if cz is None:
        raise AnalysisError('C04.R11: RenameType._canonicalize not found')
    ctx.saw(cz)
    k = 0
    for c in ast.walk(cz.node):
        if isinstance(c, ast.Call) and norm(c.func) == 'Tuple.generate_name' \
                and c.args:
            k += 1
            from ..model import inline_locals
            src = inline_locals(cz.node, c.args[0])
            ok = 'get_element_types' in src and 'enumerate' not in src
            ctx.ob('C04.R11', 'RenameType._canonicalize:tuple-name-from-'
                   'element-names', ok,
                   f'the new name of a renamed tuple is generated from '
                   f'`{src[:70]}`: Tuple.create keys the name by element '
                   f'*names*, so a named tuple is re-registered under a name '
                   f'its own data does not produce; the next use of the same '
                   f'type misses it and creates a duplicate object',
                   f'{cz.module.rel()}:{c.lineno}',
                   sample='get_element_types(schema).items(schema)')
    if k < 1:
        raise AnalysisError('C04.R11: Tuple.generate_name call not found')
    # (c)
    from ..absint import Facts
    sl = repo.cls('edb.schema.links.SetLinkType')
    ab = sl.methods.get('_alter_begin')
    if ab is None:
        raise AnalysisError('C04.R11: SetLinkType._alter_begin not found')
    ctx.saw(ab)
    guards = [t for t in ast.walk(ab.node) if isinstance(t, ast.If) and any(
        isinstance(c, ast.Call) and isinstance(c.func, ast.Attribute)
        and c.func.attr == 'maybe_get_ptr' and any(
            isinstance(x, ast.Constant) and x.value == 'target'
            for x in ast.walk(c)) for b in t.body for c in ast.walk(b))]
    outer = [t for t in guards if not any(
        t is not o and any(x is t for x in ast.walk(o)) for o in guards)]
    if not outer:
        raise AnalysisError('C04.R11: @target update of SetLinkType not '
                            'found')
    fx = Facts({'context.canonical': False}, fn_node=ab.node)
    v = fx.eval(outer[0].test)
    ctx.ob('C04.R11', 'SetLinkType._alter_begin:target-prop-follows', v is True,
           f'the update of the link\'s own @target property runs under '
           f'`{norm(outer[0].test)[:80]}`, i.e. not for every non-canonical '
           f'SET TYPE: on an inherited copy of the link the @target '
           f'property keeps the old type, nothing stops a later DROP of '
           f'that type, and the schema is left with a dangling reference',
           f'{ab.module.rel()}:{outer[0].lineno}',
           sample='if not context.canonical')



def _r12(repo: Repo, ctx) -> None:
    """C04.R12 per-command guards kept in the command context are keyed by
    the command, not by the name of its subject.  DeleteObject records that
    it already expanded the deletion of its owned children
    (`('delcanon', <key>)`); keyed by the object's *name* the record
    outlives the object, and a second drop of a re-created same-named
    object in the same context skips the cascade: its children stay behind
    with a dangling owner."""
    ctx.floor('C04.R12', 2)
    n = 0
    m = repo.module(DELTA)
    for f in repo._funcs_of(m):
        for c in ast.walk(f.node):
            if isinstance(c, ast.Call) and isinstance(
                    c.func, ast.Attribute) and c.func.attr in (
                    'get_value', 'store_value') and c.args and isinstance(
                    c.args[0], ast.Tuple) and c.args[0].elts and isinstance(
                    c.args[0].elts[0], ast.Constant) and \
                    c.args[0].elts[0].value == 'delcanon':
                n += 1
                key = [norm(e) for e in c.args[0].elts[1:]]
                ok = key == ['self']
                ctx.saw(f)
                ctx.ob('C04.R12', f'{f.name}:delcanon-key@{c.func.attr}', ok,
                       f'the "already canonicalised" guard of DeleteObject is '
                       f'keyed by {key} instead of the command itself: a '
                       f'later delete command for an object of the same '
                       f'name (dropped, re-created and dropped again in one '
                       f'context) finds the record and skips the deletion '
                       f'of its owned children', f'{m.rel()}:{c.lineno}',
                       sample=f"('delcanon', {', '.join(key)})")
    if n < 2:
        raise AnalysisError('C04.R12: the delcanon guard of DeleteObject '
                            'not found')



def _r13(repo: Repo, ctx) -> None:
    """C04.R13 a rebase re-derives the inheritance of the whole subtree.
    `ancestors` is stored per object; after the bases of T change, every
    transitive descendant's stored ancestors (and inherited refdicts) are
    stale until recomputed.  The rebase command recomputes its own object
    and then walks a collection of other objects doing the same; that
    collection has to be the descendants closure (or the walk has to
    recurse), not the direct children."""
    ctx.floor('C04.R13', 2)
    INH = 'edb.schema.inheriting'
    cls = repo.cls(f'{INH}.RebaseInheritingObject')
    fin = repo.find_method(cls.qualname, '_alter_finalize')
    if fin is None:
        raise AnalysisError('C04.R13: RebaseInheritingObject.'
                            '_alter_finalize not found')
    ctx.saw(fin)
    calls = [c for c in ast.walk(fin.node) if isinstance(c, ast.Call)
             and isinstance(c.func, ast.Attribute)
             and c.func.attr == '_recompute_inheritance']
    own = [c for c in calls if norm(c.func.value) == 'self']
    ctx.ob('C04.R13', 'rebase:recomputes-own-inheritance', bool(own),
           'the rebase command no longer recomputes the inheritance '
           '(ancestors, inherited fields) of the object whose bases changed',
           fin.loc, sample='self._recompute_inheritance(schema, context)')
    loops = [l for l in ast.walk(fin.node) if isinstance(l, ast.For)
             and any(c in calls and norm(c.func.value) != 'self'
                     for st in l.body for c in ast.walk(st))]
    if not loops:
        raise AnalysisError('C04.R13: the loop that recomputes the '
                            'inheritance of other objects after a rebase '
                            'was not found')
    defs = {}
    for st in ast.walk(fin.node):
        if isinstance(st, ast.Assign) and len(st.targets) == 1 and \
                isinstance(st.targets[0], ast.Name):
            defs.setdefault(st.targets[0].id, []).append(st.value)

    def attrs_of(e, depth=3):
        out = set()
        for x in ast.walk(e):
            if isinstance(x, ast.Call) and isinstance(x.func, ast.Attribute):
                out.add(x.func.attr)
            if depth and isinstance(x, ast.Name) and x.id in defs:
                for v in defs[x.id]:
                    out |= attrs_of(v, depth - 1)
        return out
    for l in loops:
        at = attrs_of(l.iter)
        closure = any('descendants' in a for a in at)
        direct = any(a in ('children', 'get_children', 'direct_children')
                     for a in at)
        recursive = any(
            isinstance(c, ast.Call) and isinstance(c.func, ast.Attribute)
            and c.func.attr in ('_alter_finalize', '_propagate_rebase')
            for st in l.body for c in ast.walk(st))
        if not closure and not direct:
            raise AnalysisError(f'C04.R13: cannot tell what the rebase '
                                f'loop iterates over: {norm(l.iter)[:60]}')
        ctx.ob('C04.R13', 'rebase:walks-descendant-closure',
               closure or recursive,
               f'after a rebase only `{norm(l.iter)[:60]}` get their '
               f'inheritance recomputed: deeper descendants keep the '
               f'ancestors (and inherited pointers) they had before, so '
               f'`ancestors`, `descendants()` and the refdicts disagree with '
               f'the bases', f'{fin.module.rel()}:{l.lineno}',
               sample='for d in self.scls.ordered_descendants(schema)')



def _r14(repo: Repo, ctx) -> None:
    """C04.R14 the decoder of derived names undoes the encoder.
    `mangle_name` doubles the two escape characters and then writes the
    separators `::` / `@` as one escape character each; `unmangle_name` has
    to turn exactly the *isolated* escape characters back into separators
    before halving the doubled ones.  "Isolated" needs both a negative
    look-behind and a negative look-ahead for the same character: without
    either, one half of a doubled (i.e. literal) character is read as a
    separator and the name of a derived object decodes to a different local
    name -- the owner's index files it under a name it does not bear."""
    import re._parser as _rp           # regex AST only; nothing is matched
    import re._constants as _rc
    ctx.floor('C04.R14', 2)
    NM = 'edb.schema.name'
    m = repo.module(NM)
    mg = repo.func(f'{NM}.mangle_name')
    um = repo.func(f'{NM}.unmangle_name')
    ctx.saw(mg)
    ctx.saw(um)
    # encoder: chain of .replace(a, b)
    chain = []
    for c in ast.walk(mg.node):
        if isinstance(c, ast.Call) and isinstance(c.func, ast.Attribute) \
                and c.func.attr == 'replace' and len(c.args) == 2 and all(
                isinstance(a, ast.Constant) and isinstance(a.value, str)
                for a in c.args):
            chain.append((c.args[0].value, c.args[1].value))
    doubled = {a for a, b in chain if len(a) == 1 and b == a * 2}
    seps = {b: a for a, b in chain if len(b) == 1 and b in doubled}
    if not doubled or set(seps) != doubled:
        raise AnalysisError(f'C04.R14: mangle_name is not the doubling + '
                            f'separator scheme any more ({chain})')
    consts = {}
    for st in m.tree.body:
        if isinstance(st, ast.Assign) and len(st.targets) == 1 and \
                isinstance(st.targets[0], ast.Name) and isinstance(
                st.value, ast.Call) and norm(st.value.func) == 're.compile' \
                and st.value.args and isinstance(st.value.args[0],
                                                 ast.Constant):
            consts[st.targets[0].id] = st.value.args[0].value
    subs = []
    for c in ast.walk(um.node):
        if isinstance(c, ast.Call) and isinstance(c.func, ast.Attribute) \
                and c.func.attr == 'sub' and isinstance(
                c.func.value, ast.Name) and c.func.value.id in consts \
                and c.args and isinstance(c.args[0], ast.Constant):
            subs.append((c.func.value.id, c.args[0].value, c.lineno))
    if len(subs) < len(doubled):
        raise AnalysisError('C04.R14: unmangle_name does not decode the '
                            'separators through module-level patterns any '
                            'more')

    def isolated(pat: str):
        """(char, has look-behind, has look-ahead) of `(?<!c)c(?!c)`"""
        items = list(_rp.parse(pat))
        lit = [v for op, v in items if op is _rc.LITERAL]
        if len(lit) != 1:
            return None
        ch = lit[0]

        def neg(op_av, direction):
            op, av = op_av
            if op is not _rc.ASSERT_NOT or av[0] != direction:
                return False
            inner = list(av[1])
            if len(inner) != 1:
                return False
            o, v = inner[0]
            if o is _rc.LITERAL:
                return v == ch
            if o is _rc.IN:
                return [x for x in v] == [(_rc.LITERAL, ch)]
            return False
        i = [k for k, (op, v) in enumerate(items) if op is _rc.LITERAL][0]
        before = any(neg(it, -1) for it in items[:i])
        after = any(neg(it, 1) for it in items[i + 1:])
        return chr(ch), before, after
    for name, repl, line in subs:
        iso = isolated(consts[name])
        if iso is None:
            raise AnalysisError(f'C04.R14: pattern {name} = '
                                f'{consts[name]!r} is not of the form '
                                f'(?<!c)c(?!c)')
        ch, before, after = iso
        ok = before and after and ch in seps and seps[ch] == repl
        ctx.ob('C04.R14', f'unmangle_name:{name}:isolated-escape-only', ok,
               f'{name} = {consts[name]!r} turns `{ch}` into `{repl}` '
               + ('without a negative look-behind' if not before else
                  'without a negative look-ahead' if not after else
                  'which mangle_name does not write for it')
               + f': one half of a doubled `{ch}` (a literal `{ch}` in an '
                 f'identifier) is decoded as a separator, so a derived '
                 f'name decodes to another local name than it was built '
                 f'from', f'{m.rel()}:{line}',
               sample=f'(?<![{ch}]){ch}(?![{ch}]) -> {repl}')
