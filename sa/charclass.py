"""Finite unions of code-point intervals + extractors (Python regex char
classes via re._parser, Rust char/byte literals and match arms)."""
from __future__ import annotations

import re
from typing import Iterable, List, Optional, Tuple

MAXCP = 0x10FFFF


class CharSet:
    def __init__(self, ivs: Iterable[Tuple[int, int]] = ()):
        self.ivs = self._norm(ivs)

    @staticmethod
    def _norm(ivs):
        out: List[Tuple[int, int]] = []
        for a, b in sorted(ivs):
            if a > b:
                continue
            if out and a <= out[-1][1] + 1:
                out[-1] = (out[-1][0], max(out[-1][1], b))
            else:
                out.append((a, b))
        return out

    @classmethod
    def of(cls, *cps: int) -> 'CharSet':
        return cls((c, c) for c in cps)

    def __or__(self, o):
        return CharSet(self.ivs + o.ivs)

    def __and__(self, o):
        out = []
        for a, b in self.ivs:
            for c, d in o.ivs:
                lo, hi = max(a, c), min(b, d)
                if lo <= hi:
                    out.append((lo, hi))
        return CharSet(out)

    def complement(self, top: int = MAXCP):
        out = []
        prev = 0
        for a, b in self.ivs:
            if a > prev:
                out.append((prev, a - 1))
            prev = b + 1
        if prev <= top:
            out.append((prev, top))
        return CharSet(out)

    def __sub__(self, o):
        return self & o.complement()

    def __bool__(self):
        return bool(self.ivs)

    def __contains__(self, cp: int):
        return any(a <= cp <= b for a, b in self.ivs)

    def __le__(self, o):
        return not (self - o)

    def __eq__(self, o):
        return self.ivs == o.ivs

    def size(self) -> int:
        return sum(b - a + 1 for a, b in self.ivs)

    def show(self, limit: int = 8) -> str:
        parts = []
        for a, b in self.ivs[:limit]:
            parts.append(f'U+{a:04X}' if a == b else f'U+{a:04X}-U+{b:04X}')
        if len(self.ivs) > limit:
            parts.append('…')
        return '{' + ', '.join(parts) + '}'


def from_regex_class(pattern, flags: int = 0) -> CharSet:
    """CharSet of a regex consisting of exactly one character class (or one
    literal).  pattern: str or bytes."""
    import re._parser as sre_parse   # py3.11+: re._parser
    p = sre_parse.parse(pattern, flags)
    if len(p) != 1:
        raise ValueError(f'not a single character class: {pattern!r}')
    op, av = p[0]
    opn = str(op)
    top = 0xFF if isinstance(pattern, bytes) else MAXCP
    if opn == 'LITERAL':
        return CharSet.of(av)
    if opn == 'NOT_LITERAL':
        return CharSet.of(av).complement(top)
    if opn != 'IN':
        raise ValueError(f'unsupported regex node {opn}')
    ivs = []
    neg = False
    for o, a in av:
        on = str(o)
        if on == 'NEGATE':
            neg = True
        elif on == 'LITERAL':
            ivs.append((a, a))
        elif on == 'RANGE':
            ivs.append((a[0], a[1]))
        else:
            raise ValueError(f'unsupported class item {on}')
    cs = CharSet(ivs)
    return cs.complement(top) if neg else cs


# -- Rust -----------------------------------------------------------------

def rust_fn_body(src: str, name: str) -> str:
    m = re.search(r'\bfn\s+' + re.escape(name) + r'\b[^{]*\{', src)
    if not m:
        raise KeyError(name)
    i = m.end()
    depth = 1
    j = i
    in_str = None
    while j < len(src) and depth:
        c = src[j]
        if in_str:
            if c == '\\':
                j += 2
                continue
            if c == in_str:
                in_str = None
        else:
            if c == '"':
                in_str = '"'
            elif c == "'":
                # char literal or lifetime: consume a char literal if present
                m2 = re.match(r"'(\\u\{[0-9A-Fa-f]+\}|\\x[0-9A-Fa-f]{2}|\\.|[^'\\])'",
                              src[j:])
                if m2:
                    j += m2.end()
                    continue
            elif c == '/' and src[j:j + 2] == '//':
                j = src.index('\n', j)
                continue
            elif c == '{':
                depth += 1
            elif c == '}':
                depth -= 1
        j += 1
    return src[i:j - 1]


_RCHAR = r"b?'(\\u\{[0-9A-Fa-f]+\}|\\x[0-9A-Fa-f]{2}|\\.|[^'\\])'"


def rust_char(lit: str) -> int:
    """Code point of a Rust char / byte literal body (between the quotes)."""
    if lit.startswith('\\u{'):
        return int(lit[3:-1], 16)
    if lit.startswith('\\x'):
        return int(lit[2:], 16)
    if lit.startswith('\\'):
        return {'n': 10, 'r': 13, 't': 9, '0': 0, '\\': 92, "'": 39,
                '"': 34}[lit[1]]
    return ord(lit)


def rust_escape_table(body: str) -> dict:
    """From an unquote function body: {'identity': set of chars accepted
    after a backslash as themselves, 'map': {letter: code point},
    'x': (max, nonzero) or None, 'u': digits or None, 'U': digits or None,
    'continuation': bool}"""
    out = {'identity': set(), 'map': {}, 'x': None, 'u': None, 'U': None,
           'continuation': False}
    m = re.search(r"((?:c\s*@\s*" + _RCHAR + r"\s*\|?\s*)+)=>\s*res\.push\(c\)",
                  body)
    if m:
        for lit in re.findall(r"c\s*@\s*" + _RCHAR, m.group(1)):
            out['identity'].add(rust_char(lit))
    for m in re.finditer(_RCHAR + r"\s*=>\s*res\.push\(" + _RCHAR + r"\)",
                         body):
        out['map'][rust_char(m.group(1))] = rust_char(m.group(2))
    mx = re.search(r"b?'x'\s*=>\s*\{(.*?)\n\s{20}\}", body, re.S)
    if re.search(r"b?'x'\s*=>", body):
        g = re.search(r'if\s+code\s*>\s*(0x[0-9a-fA-F]+|\d+)\s*\|\|\s*code\s*==\s*0',
                      body)
        if g:
            out['x'] = (int(g.group(1), 0), True)
        else:
            out['x'] = (0xFF, False)
    for k in ('u', 'U'):
        mm = re.search(r"'" + k + r"'\s*=>\s*\{.*?\.get\(0\.\.(\d+)\)", body,
                       re.S)
        if mm:
            out[k] = int(mm.group(1))
    if re.search(r"b?'\\r'\s*\|\s*b?'\\n'\s*=>", body):
        out['continuation'] = True
    return out


def rust_prohibited(body: str, escape: bool) -> CharSet:
    """check_prohibited(c, escape): code points for which it returns Err."""
    cps = set()
    # arms:  '\0' if escape => Err  |  '\0' | '\u{202A}' | ... => { Err.. }
    for m in re.finditer(r"((?:" + _RCHAR +
                         r"\s*\|?\s*)+)(?P<guard>if\s+escape\s*)?=>", body):
        lits = re.findall(_RCHAR, m.group(1))
        guarded = bool(m.group('guard'))
        seg = body[m.end():m.end() + 400]
        if 'Err' not in seg.split('_ =>')[0]:
            continue
        if guarded and not escape:
            continue
        for lit in lits:
            cps.add(rust_char(lit))
    return CharSet.of(*cps)
