"""Repository model: parsed modules, import aliases, classes (with MRO),
functions, and name resolution.  stdlib-only; nothing from /repo is imported
or executed.

The root analysed is VERIF_REPO (default /repo); self-tests point it at a
scratch overlay.
"""
from __future__ import annotations

import ast
import hashlib
import os
import sys
from typing import Dict, Iterable, Iterator, List, Optional, Set, Tuple


class AnalysisError(Exception):
    """An anchor vanished / the analyser cannot decide.  Exit code 2."""


def repo_root() -> str:
    return os.environ.get('VERIF_REPO', '/repo')


class Module:
    def __init__(self, name: str, path: str, src: str, tree: ast.Module,
                 is_pkg: bool):
        self.name = name
        self.path = path
        self.src = src
        self.tree = tree
        self.is_pkg = is_pkg
        self.imports: Dict[str, str] = {}   # local name -> dotted target
        self.classes: Dict[str, 'ClassInfo'] = {}
        self.functions: Dict[str, 'FuncInfo'] = {}  # top-level only
        self.assigns: Dict[str, ast.AST] = {}  # top-level NAME = value
        self._lines: Optional[List[str]] = None

    @property
    def package(self) -> str:
        return self.name if self.is_pkg else self.name.rpartition('.')[0]

    def rel(self) -> str:
        return os.path.relpath(self.path, repo_root())

    def seg(self, node: ast.AST) -> str:
        try:
            return ast.get_source_segment(self.src, node) or ''
        except Exception:
            return ''


class FuncInfo:
    def __init__(self, qualname: str, node, module: Module,
                 cls: Optional['ClassInfo'], parent: Optional['FuncInfo']):
        self.qualname = qualname
        self.node = node
        self.module = module
        self.cls = cls
        self.parent = parent
        self.name = node.name

    @property
    def loc(self) -> str:
        return f'{self.module.rel()}:{self.node.lineno}'

    def params(self) -> List[str]:
        a = self.node.args
        return [x.arg for x in a.posonlyargs + a.args + a.kwonlyargs]

    def __repr__(self):
        return f'<Func {self.qualname}>'


class ClassInfo:
    def __init__(self, qualname: str, node: ast.ClassDef, module: Module):
        self.qualname = qualname
        self.node = node
        self.module = module
        self.name = node.name
        self.base_exprs = list(node.bases)
        self.bases: List[str] = []     # resolved qualnames (maybe external)
        self.keywords = {k.arg: k.value for k in node.keywords if k.arg}
        self.methods: Dict[str, FuncInfo] = {}
        self.ann_fields: Dict[str, ast.AnnAssign] = {}
        self.assign_fields: Dict[str, ast.AST] = {}
        self._mro: Optional[List[str]] = None

    @property
    def loc(self) -> str:
        return f'{self.module.rel()}:{self.node.lineno}'

    def __repr__(self):
        return f'<Class {self.qualname}>'


def dotted(node: ast.AST) -> Optional[str]:
    """a.b.c -> 'a.b.c' for Name/Attribute chains, else None."""
    parts = []
    while isinstance(node, ast.Attribute):
        parts.append(node.attr)
        node = node.value
    if isinstance(node, ast.Name):
        parts.append(node.id)
        return '.'.join(reversed(parts))
    return None


CURRENT: Optional['Repo'] = None


class Repo:
    def __init__(self, root: Optional[str] = None,
                 subdirs: Iterable[str] = ('edb',),
                 overlay: Optional[Dict[str, str]] = None,
                 base: Optional['Repo'] = None):
        """overlay: relpath -> replacement source text (self-tests only);
        base: a Repo of the same root whose parsed trees are reused for files
        not in the overlay."""
        self.root = root or (base.root if base else repo_root())
        self.overlay = overlay or {}
        self._base = base
        self._call_index = None
        self.modules: Dict[str, Module] = {}
        self.classes: Dict[str, ClassInfo] = {}
        self.functions: Dict[str, FuncInfo] = {}
        self.by_path: Dict[str, Module] = {}
        self.digest = hashlib.sha256()
        self.parse_errors: List[str] = []
        import gc
        was = gc.isenabled()
        gc.disable()
        try:
            for sd in subdirs:
                self._load_tree(os.path.join(self.root, sd))
            self.helpers_inlined = self._undo_extractions()
            for m in self.modules.values():
                self._index_module(m)
            for c in self.classes.values():
                c.bases = [self._resolve_base(c, b) for b in c.base_exprs]
            self.alpha_renamed = self._alpha()
        finally:
            # the parsed trees live for the whole run: keep them out of
            # every later collection
            gc.freeze()
            if was:
                gc.enable()
        self._subclasses: Optional[Dict[str, Set[str]]] = None
        global CURRENT
        CURRENT = self

    def _undo_extractions(self) -> int:
        """Functions the baseline tree did not have, used only through
        plain calls in statement position in their own module, are inlined
        back before indexing (sa/alpha.py, `extracted helpers`)."""
        if os.environ.get('VERIF_NO_ALPHA'):
            return 0
        from . import alpha
        base = alpha.baseline()
        mods = base.get('__modules__', {})
        funcs = base.get('__funcs__', {})
        n = 0
        changed = []
        for m in self.modules.values():
            if getattr(m, 'shared', False):
                continue
            rel = m.rel()
            if rel not in funcs or \
                    mods.get(rel) == hashlib.sha1(m.src.encode()).hexdigest():
                continue
            changed.append(m)
        # new methods that other changed modules may call on an object
        taken = set()
        for qs in funcs.values():
            for q in qs:
                taken.add(q.rsplit('.', 1)[-1])
        foreign = {}
        if len(changed) > 1:
            for m in changed:
                try:
                    pm_ = alpha.portable_new_methods(
                        m.tree, m.name, set(funcs[m.rel()]), taken)
                except Exception:
                    pm_ = []
                for other in changed:
                    if other is not m and pm_:
                        foreign.setdefault(other.name, []).extend(pm_)
        for m in changed:
            rel = m.rel()
            others = [x.src for x in self.modules.values() if x is not m]
            nested = base.get('__nested__', {}).get(rel)
            n += alpha.undo_extractions(
                m.tree, m.name, set(funcs[rel]), others, base,
                set(nested) if nested is not None else None,
                foreign.get(m.name, ()))
        return n

    def new_function_names(self) -> Dict[str, List[str]]:
        """simple name -> qualified names of functions the baseline tree did
        not have and that are still there after the inlining pass (helpers
        that could not be inlined, new API); names that some baseline
        function also bears are left out (they identify nothing)"""
        got = getattr(self, '_new_fn_names', None)
        if got is not None:
            return got
        from . import alpha
        base = alpha.baseline()
        mods = base.get('__modules__', {})
        funcs = base.get('__funcs__', {})
        out: Dict[str, List[str]] = {}
        if not funcs or os.environ.get('VERIF_NO_ALPHA'):
            self._new_fn_names = out
            return out
        old_simple: Set[str] = set()
        for qs in funcs.values():
            for q in qs:
                old_simple.add(q.rsplit('.', 1)[-1])
        for m in self.modules.values():
            rel = m.rel()
            if not rel.startswith('edb/'):
                continue
            if rel in funcs and mods.get(rel) == hashlib.sha1(
                    m.src.encode()).hexdigest():
                continue
            known = set(funcs.get(rel, ()))
            for q in alpha.def_table(m.tree, m.name):
                if q not in known:
                    nm = q.rsplit('.', 1)[-1]
                    if nm not in old_simple and not (
                            nm.startswith('__') and nm.endswith('__')):
                        out.setdefault(nm, []).append(q)
        self._new_fn_names = out
        return out

    def delegates_to_new(self, loc: str) -> List[str]:
        """new (non-baseline, not inlined) functions called from the
        top-level function / method that contains file:line `loc`"""
        new = self.new_function_names()
        newq = getattr(self, '_new_fn_quals', None)
        if newq is None:
            from . import alpha
            base = alpha.baseline()
            funcs = base.get('__funcs__', {})
            newq = set()
            for mm in self.modules.values():
                rel = mm.rel()
                if getattr(mm, 'shared', False) and False:
                    continue
                known = funcs.get(rel)
                if known is None:
                    continue
                known = set(known)
                for q in alpha.def_table(mm.tree, mm.name):
                    if q not in known:
                        newq.add(q)
            self._new_fn_quals = newq
        if (not new and not newq) or ':' not in loc:
            return []
        path, _, ln = loc.partition(':')
        try:
            line = float(ln.split()[0].split(':')[0])
        except ValueError:
            return []
        m = self.by_path.get(path)
        if m is None:
            return []
        best = None
        for f in self._funcs_of(m):
            if f.parent is not None:
                continue
            n = f.node
            lo = min([n.lineno] + [d.lineno for d in n.decorator_list])
            hi = getattr(n, 'end_lineno', n.lineno) or n.lineno
            if lo <= line <= hi and (best is None or
                                     lo >= best.node.lineno):
                best = f
        if best is None:
            return []
        hits = []
        for c in ast.walk(best.node):
            if not isinstance(c, ast.Call):
                continue
            f = c.func
            nm = f.id if isinstance(f, ast.Name) else (
                f.attr if isinstance(f, ast.Attribute) else None)
            if nm is None or nm == best.node.name or nm in hits:
                continue
            if nm in new:
                hits.append(nm)
            elif isinstance(f, ast.Name) and nm in m.functions and \
                    m.functions[nm].qualname.split('@')[0] in newq:
                hits.append(nm)
            elif isinstance(f, ast.Attribute) and isinstance(
                    f.value, ast.Name) and f.value.id in ('self', 'cls') \
                    and best.cls is not None:
                f2 = self.find_method(best.cls.qualname, nm)
                if f2 is not None and f2.qualname.split('@')[0] in newq:
                    hits.append(nm)
        return hits

    def _alpha(self) -> int:
        """Rename locals back to the names the rules were written against
        (sa/alpha.py); only modules whose source differs from the recorded
        baseline are looked at."""
        if os.environ.get('VERIF_NO_ALPHA'):
            return 0
        from . import alpha
        base = alpha.baseline()
        mods = base.get('__modules__', {})
        n = 0
        for m in self.modules.values():
            if getattr(m, 'shared', False):
                continue
            rel = m.rel()
            if mods.get(rel) == hashlib.sha1(m.src.encode()).hexdigest():
                continue
            fs = {f.qualname: f for f in self._funcs_of(m)
                  if f.parent is None}
            keys = alpha.stable_keys(fs)
            for q, f in fs.items():
                n += alpha.canonicalise_function(keys[q], f.node)
                alpha.register_base_tests(keys[q], f.node)
        if n:
            # derived per-tree memo tables were not built yet at this point
            pass
        return n

    # ------------------------------------------------------------------
    def _load_tree(self, top: str) -> None:
        if not os.path.isdir(top):
            raise AnalysisError(f'source tree {top} not found')
        for dirpath, dirnames, filenames in os.walk(top):
            dirnames[:] = sorted(
                d for d in dirnames
                if d not in ('__pycache__', 'node_modules', 'target')
                and not d.startswith('.'))
            for fn in sorted(filenames):
                if not fn.endswith('.py'):
                    continue
                path = os.path.join(dirpath, fn)
                rel = os.path.relpath(path, self.root)
                parts = rel[:-3].split(os.sep)
                is_pkg = parts[-1] == '__init__'
                if is_pkg:
                    parts = parts[:-1]
                name = '.'.join(parts)
                try:
                    if rel in self.overlay:
                        raw = self.overlay[rel].encode('utf-8')
                    elif self._base is not None and rel in self._base.by_path:
                        bm = self._base.by_path[rel]
                        m = Module(name, path, bm.src, bm.tree, is_pkg)
                        m.shared = True
                        self.modules[name] = m
                        self.by_path[rel] = m
                        continue
                    else:
                        with open(path, 'rb') as f:
                            raw = f.read()
                    self.digest.update(rel.encode())
                    self.digest.update(raw)
                    src = raw.decode('utf-8')
                    tree = ast.parse(src, filename=path)
                except (SyntaxError, UnicodeDecodeError, ValueError) as e:
                    self.parse_errors.append(f'{rel}: {e}')
                    continue
                m = Module(name, path, src, tree, is_pkg)
                self.modules[name] = m
                self.by_path[rel] = m

    def _index_module(self, m: Module) -> None:
        # imports anywhere at module level (including under `if TYPE_CHECKING`)
        for node in _walk_stmts(m.tree.body):
            if isinstance(node, ast.Import):
                for a in node.names:
                    if a.asname:
                        m.imports.setdefault(a.asname, a.name)
                    else:
                        top = a.name.split('.')[0]
                        m.imports.setdefault(top, top)
            elif isinstance(node, ast.ImportFrom):
                base = self._abs_from(m, node)
                for a in node.names:
                    if a.name == '*':
                        continue
                    local = a.asname or a.name
                    m.imports.setdefault(
                        local, f'{base}.{a.name}' if base else a.name)
        self._index_body(m, m.tree.body, prefix=m.name, cls=None, parent=None)

    def _abs_from(self, m: Module, node: ast.ImportFrom) -> str:
        if node.level == 0:
            return node.module or ''
        pkg = m.package.split('.') if m.package else []
        up = node.level - 1
        if up:
            pkg = pkg[:-up] if up <= len(pkg) else []
        base = '.'.join(pkg)
        if node.module:
            base = f'{base}.{node.module}' if base else node.module
        return base

    def _index_body(self, m: Module, body, prefix: str,
                    cls: Optional[ClassInfo],
                    parent: Optional[FuncInfo]) -> None:
        for node in body:
            if isinstance(node, (ast.FunctionDef, ast.AsyncFunctionDef)):
                qn = f'{prefix}.{node.name}'
                fi = FuncInfo(qn, node, m, cls, parent)
                # later definitions of the same name (overloads, registered
                # singledispatch `_`) get a positional suffix
                if qn in self.functions:
                    qn2 = f'{qn}@{node.lineno}'
                    fi.qualname = qn2
                    self.functions[qn2] = fi
                else:
                    self.functions[qn] = fi
                if cls is not None and parent is None:
                    cls.methods[node.name] = fi
                elif cls is None and parent is None:
                    m.functions.setdefault(node.name, fi)
                self._index_body(m, node.body, fi.qualname, None, fi)
            elif isinstance(node, ast.ClassDef):
                qn = f'{prefix}.{node.name}'
                ci = ClassInfo(qn, node, m)
                self.classes[qn] = ci
                if cls is None and parent is None:
                    m.classes[node.name] = ci
                for st in node.body:
                    if isinstance(st, ast.AnnAssign) and isinstance(
                            st.target, ast.Name):
                        ci.ann_fields[st.target.id] = st
                        if st.value is not None:
                            ci.assign_fields[st.target.id] = st.value
                    elif isinstance(st, ast.Assign):
                        for t in st.targets:
                            if isinstance(t, ast.Name):
                                ci.assign_fields[t.id] = st.value
                self._index_body(m, node.body, qn, ci, None)
            elif isinstance(node, (ast.If, ast.Try, ast.With)):
                # conditional definitions at module / class level
                for sub in _sub_bodies(node):
                    self._index_body(m, sub, prefix, cls, parent)
            elif isinstance(node, ast.Assign) and cls is None \
                    and parent is None:
                for t in node.targets:
                    if isinstance(t, ast.Name):
                        m.assigns[t.id] = node.value
            elif isinstance(node, ast.AnnAssign) and cls is None \
                    and parent is None and isinstance(node.target, ast.Name) \
                    and node.value is not None:
                m.assigns[node.target.id] = node.value

    # ------------------------------------------------------------------
    def resolve(self, m: Module, name: str) -> str:
        """Resolve a dotted local name in module m to a global dotted name
        (best effort; follows re-exports through package __init__)."""
        head, _, rest = name.partition('.')
        if head in m.classes:
            tgt = m.classes[head].qualname
        elif head in m.functions:
            tgt = m.functions[head].qualname
        elif head in m.imports:
            tgt = m.imports[head]
        elif head in m.assigns:
            tgt = f'{m.name}.{head}'
        else:
            return name
        full = f'{tgt}.{rest}' if rest else tgt
        return self.canon(full)

    def canon(self, full: str, _depth: int = 0) -> str:
        """Follow re-exports: 'edb.edgeql.ast.X' stays, 'edb.edgeql.qlast'..."""
        if _depth > 8:
            return full
        if full in self.classes or full in self.functions \
                or full in self.modules:
            return full
        # split into longest module prefix + attribute path
        parts = full.split('.')
        for i in range(len(parts) - 1, 0, -1):
            modname = '.'.join(parts[:i])
            if modname in self.modules:
                m = self.modules[modname]
                attr = parts[i]
                rest = parts[i + 1:]
                if attr in m.classes or attr in m.functions:
                    return full
                if attr in m.imports:
                    tgt = m.imports[attr]
                    new = '.'.join([tgt] + rest)
                    if new != full:
                        return self.canon(new, _depth + 1)
                if attr in m.assigns:
                    # alias assignment  X = other.Y
                    d = dotted(m.assigns[attr])
                    if d:
                        new = self.resolve(m, d)
                        if rest:
                            new = new + '.' + '.'.join(rest)
                        if new != full:
                            return self.canon(new, _depth + 1)
                return full
        return full

    def resolve_expr(self, m: Module, node: ast.AST) -> Optional[str]:
        d = dotted(node)
        if d is None:
            return None
        return self.resolve(m, d)

    def _resolve_base(self, c: ClassInfo, b: ast.AST) -> str:
        # Generic[T] / Foo[T] -> Foo
        while isinstance(b, ast.Subscript):
            b = b.value
        if isinstance(b, ast.Call):
            b = b.func
        d = dotted(b)
        if d is None:
            return '<expr>'
        # class-nested lookup first (rare), then module
        return self.resolve(c.module, d)

    # ------------------------------------------------------------------
    def mro(self, qn: str) -> List[str]:
        c = self.classes.get(qn)
        if c is None:
            return [qn]
        if c._mro is not None:
            return c._mro
        c._mro = [qn]  # cycle guard
        seqs = []
        for b in c.bases:
            if b in self.classes:
                seqs.append(list(self.mro(b)))
            else:
                seqs.append([b])
        seqs.append(list(c.bases))
        res = [qn]
        seqs = [s for s in seqs if s]
        while seqs:
            for s in seqs:
                cand = s[0]
                if not any(cand in t[1:] for t in seqs):
                    break
            else:
                # inconsistent; fall back to DFS order
                cand = seqs[0][0]
            res.append(cand)
            seqs = [[x for x in s if x != cand] for s in seqs]
            seqs = [s for s in seqs if s]
        c._mro = res
        return res

    def issubclass(self, qn: str, base: str) -> bool:
        return base in self.mro(qn)

    def subclasses(self, base: str, strict: bool = False) -> List[str]:
        out = [q for q in self.classes
               if base in self.mro(q) and (not strict or q != base)]
        return sorted(out)

    def find_method(self, qn: str, name: str) -> Optional[FuncInfo]:
        for k in self.mro(qn):
            c = self.classes.get(k)
            if c and name in c.methods:
                return c.methods[name]
        return None

    def class_fields(self, qn: str) -> Dict[str, Tuple[str, ast.AnnAssign]]:
        """Annotated fields along the MRO (nearest definition wins)."""
        out: Dict[str, Tuple[str, ast.AnnAssign]] = {}
        for k in reversed(self.mro(qn)):
            c = self.classes.get(k)
            if c:
                for f, a in c.ann_fields.items():
                    out[f] = (k, a)
        return out

    # ------------------------------------------------------------------
    def module(self, name: str) -> Module:
        m = self.modules.get(name)
        if m is None:
            raise AnalysisError(f'anchor module {name} not found')
        return m

    def func(self, qn: str) -> FuncInfo:
        f = self.functions.get(qn)
        if f is None:
            raise AnalysisError(f'anchor function {qn} not found')
        return f

    def cls(self, qn: str) -> ClassInfo:
        c = self.classes.get(qn)
        if c is None:
            raise AnalysisError(f'anchor class {qn} not found')
        return c

    def call_index(self) -> Dict[str, List[Tuple[Module, ast.Call]]]:
        """last component of the callee's dotted name -> call sites."""
        if self._call_index is None:
            idx: Dict[str, List[Tuple[Module, ast.Call]]] = {}
            for m in self.modules.values():
                for name, calls in module_calls(m).items():
                    idx.setdefault(name, []).extend((m, c) for c in calls)
            self._call_index = idx
        return self._call_index

    def enclosing_function(self, m: Module, node: ast.AST
                           ) -> Optional[FuncInfo]:
        best = None
        ln = getattr(node, 'lineno', None)
        if ln is None:
            return None
        for f in self._funcs_of(m):
            n = f.node
            if n.lineno <= ln <= (n.end_lineno or n.lineno):
                if best is None or n.lineno >= best.node.lineno:
                    best = f
        return best

    def _funcs_of(self, m: Module) -> List[FuncInfo]:
        cache = self.__dict__.setdefault('_fom', {})
        if m.name not in cache:
            cache[m.name] = [f for f in self.functions.values()
                             if f.module is m]
        return cache[m.name]

    def funcs_in(self, prefix: str) -> List[FuncInfo]:
        return [f for q, f in sorted(self.functions.items())
                if f.module.name == prefix
                or f.module.name.startswith(prefix + '.')]

    def modules_in(self, prefix: str) -> List[Module]:
        return [m for n, m in sorted(self.modules.items())
                if n == prefix or n.startswith(prefix + '.')]

    def all_defs_named(self, module: str, name: str) -> List[FuncInfo]:
        """All function defs in a module with this short name (handles
        repeated `def _(...)` registrations)."""
        return [f for f in self.functions.values()
                if f.module.name == module and f.name == name]


def _walk_stmts(body) -> Iterator[ast.stmt]:
    """All statements, at any nesting depth, without visiting expressions."""
    stack = [body]
    while stack:
        b = stack.pop()
        for st in b:
            yield st
            for fld in ('body', 'orelse', 'finalbody'):
                sub = getattr(st, fld, None)
                if sub and isinstance(sub, list):
                    stack.append(sub)
            for h in getattr(st, 'handlers', None) or ():
                stack.append(h.body)
            for c in getattr(st, 'cases', None) or ():
                stack.append(c.body)


def _sub_bodies(node) -> Iterator[list]:
    for fld in ('body', 'orelse', 'finalbody'):
        b = getattr(node, fld, None)
        if b:
            yield b
    for h in getattr(node, 'handlers', []) or []:
        yield h.body


# ----------------------------------------------------------------------
# small AST helpers shared by the rules

def walk_no_nested(node: ast.AST, include_lambdas: bool = True
                   ) -> Iterator[ast.AST]:
    """ast.walk that does not descend into nested def/class bodies."""
    stack = [node]
    first = True
    while stack:
        n = stack.pop()
        if not first and isinstance(
                n, (ast.FunctionDef, ast.AsyncFunctionDef, ast.ClassDef)):
            continue
        if not first and not include_lambdas and isinstance(n, ast.Lambda):
            continue
        first = False
        yield n
        stack.extend(reversed(list(ast.iter_child_nodes(n))))


def calls_in(node: ast.AST) -> Iterator[ast.Call]:
    for n in ast.walk(node):
        if isinstance(n, ast.Call):
            yield n


def call_name(call: ast.Call) -> Optional[str]:
    return dotted(call.func)


def const_str(node: ast.AST) -> Optional[str]:
    if isinstance(node, ast.Constant) and isinstance(node.value, str):
        return node.value
    return None


def kwarg(call: ast.Call, name: str) -> Optional[ast.AST]:
    for k in call.keywords:
        if k.arg == name:
            return k.value
    return None


def names_read(node: ast.AST) -> Set[str]:
    out = set()
    for n in ast.walk(node):
        if isinstance(n, ast.Name):
            out.add(n.id)
    return out


def attr_chains(node: ast.AST) -> Set[str]:
    out = set()
    for n in ast.walk(node):
        if isinstance(n, (ast.Attribute, ast.Name)):
            d = dotted(n)
            if d:
                out.add(d)
    return out


def norm(node: ast.AST) -> str:
    """Normalised text of a node (position independent)."""
    if node is None:
        return ''
    try:
        return ast.unparse(node)
    except Exception:
        return ast.dump(node)


def find_stmts(fn: ast.AST, pred) -> List[ast.stmt]:
    return [n for n in walk_no_nested(fn) if isinstance(n, ast.stmt)
            and pred(n)]


# ----------------------------------------------------------------------
# per-tree memo (trees are shared between a base Repo and its overlays)

_TREE_MEMO: Dict[Tuple[int, str], object] = {}


def tree_memo(tree: ast.AST, key: str, compute):
    k = (id(tree), key)
    if k not in _TREE_MEMO:
        _TREE_MEMO[k] = (tree, compute(tree))   # keep tree alive: id stable
    return _TREE_MEMO[k][1]


_MUT = {'append', 'appendleft', 'pop', 'popleft', 'clear', 'remove',
        'extend', 'insert', 'update', 'setdefault', 'popitem', 'add',
        'discard', 'rotate', 'sort', 'reverse'}


def attr_writes(root: ast.AST, nested: bool = True):
    """(attr, kind, node) for every write through an attribute below root:
    x.A = / x.A op= / x.A[k] = / del x.A[k] / x.A.mutator(...)."""
    it = ast.walk(root) if nested else walk_no_nested(root)
    for n in it:
        if isinstance(n, ast.AugAssign):
            t = n.target
            if isinstance(t, ast.Attribute):
                yield t.attr, 'aug', n
            elif isinstance(t, ast.Subscript) and isinstance(
                    t.value, ast.Attribute):
                yield t.value.attr, 'augitem', n
        elif isinstance(n, (ast.Assign, ast.AnnAssign)):
            if isinstance(n, ast.AnnAssign) and n.value is None:
                continue
            tg = n.targets if isinstance(n, ast.Assign) else [n.target]
            for t in tg:
                for tt in (t.elts if isinstance(t, (ast.Tuple, ast.List))
                           else [t]):
                    if isinstance(tt, ast.Attribute):
                        yield tt.attr, 'assign', n
                    elif isinstance(tt, ast.Subscript) and isinstance(
                            tt.value, ast.Attribute):
                        yield tt.value.attr, 'setitem', n
        elif isinstance(n, ast.Delete):
            for t in n.targets:
                if isinstance(t, ast.Subscript) and isinstance(
                        t.value, ast.Attribute):
                    yield t.value.attr, 'delitem', n
                elif isinstance(t, ast.Attribute):
                    yield t.attr, 'del', n
        elif isinstance(n, ast.Call) and isinstance(n.func, ast.Attribute) \
                and n.func.attr in _MUT and isinstance(n.func.value,
                                                       ast.Attribute):
            yield n.func.value.attr, n.func.attr, n


def module_attr_writes(m: Module):
    """Memoised list of attribute writes anywhere in the module."""
    return tree_memo(m.tree, 'attr_writes',
                     lambda t: list(attr_writes(t, nested=True)))


def _calls_by_name(tree):
    idx: Dict[str, list] = {}
    for n in ast.walk(tree):
        if isinstance(n, ast.Call):
            f = n.func
            if isinstance(f, ast.Attribute):
                idx.setdefault(f.attr, []).append(n)
            elif isinstance(f, ast.Name):
                idx.setdefault(f.id, []).append(n)
    return idx


def module_calls(m: Module) -> Dict[str, List[ast.Call]]:
    """Memoised: last component of callee name -> calls in the module."""
    return tree_memo(m.tree, 'calls', _calls_by_name)


def module_nodes(m: Module, *types) -> list:
    """Memoised list of all nodes of the given ast types in the module."""
    key = 'nodes:' + ','.join(t.__name__ for t in types)
    return tree_memo(m.tree, key, lambda t: [
        n for n in ast.walk(t) if isinstance(n, types)])


def inline_locals(fn_node: ast.AST, expr: ast.AST, depth: int = 3) -> str:
    """Normalised text of expr with single-assignment local names replaced
    by their defining expressions (so that renaming a local does not change
    the text)."""
    params = set()
    a = getattr(fn_node, 'args', None)
    if a is not None:
        params = {x.arg for x in a.posonlyargs + a.args + a.kwonlyargs}
    defs: Dict[str, List[ast.AST]] = {}
    for n in walk_no_nested(fn_node):
        if isinstance(n, ast.Assign) and len(n.targets) == 1 and isinstance(
                n.targets[0], ast.Name):
            defs.setdefault(n.targets[0].id, []).append(n.value)
        elif isinstance(n, ast.AnnAssign) and n.value is not None \
                and isinstance(n.target, ast.Name):
            defs.setdefault(n.target.id, []).append(n.value)
        elif isinstance(n, (ast.AugAssign, ast.AnnAssign, ast.For,
                            ast.NamedExpr)):
            t = n.target
            if isinstance(t, ast.Name):
                defs.setdefault(t.id, []).append(None)

    class T(ast.NodeTransformer):
        def __init__(self, d):
            self.d = d

        def visit_Name(self, node):
            if isinstance(node.ctx, ast.Load) and node.id not in params:
                v = defs.get(node.id)
                if v and len(v) == 1 and v[0] is not None and self.d > 0:
                    import copy
                    return T(self.d - 1).visit(copy.deepcopy(v[0]))
            return node
    import copy
    return norm(T(depth).visit(copy.deepcopy(expr)))
