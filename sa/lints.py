"""Repository-wide structural lints shared by several properties."""
from __future__ import annotations

import ast
from typing import Iterable, List, Tuple

from . import visitors as V
from .model import FuncInfo, Repo, norm

# call sites where two arguments are deliberately passed crosswise
SWAP_OK = {
    ('edb.schema.casts.find_common_castable_type',
     'edb.schema.casts.get_implicit_cast_distance'):
        'distance is measured in both directions (source->target and '
        'target->source) on purpose',
}


def swapped_arguments(repo: Repo, prefixes: Iterable[str]
                      ) -> Tuple[int, List[Tuple[FuncInfo, ast.Call,
                                                 FuncInfo, str, str]]]:
    """Positional arguments that are plain names equal to two *different*
    parameter names of the resolved callee, each in the other's position."""
    fr = V.FieldReads(repo)
    n = 0
    hits = []
    for m in repo.modules.values():
        if not m.name.startswith(tuple(prefixes)):
            continue
        for f in repo._funcs_of(m):
            for c in ast.walk(f.node):
                if not isinstance(c, ast.Call) or len(c.args) < 2:
                    continue
                cal = fr.resolve_callee(f, c)
                if cal is None:
                    continue
                ps = cal.params()
                if cal.cls is not None and ps and ps[0] in ('self', 'cls'):
                    ps = ps[1:]
                names = [a.id if isinstance(a, ast.Name) else None
                         for a in c.args]
                n += 1
                for i, a in enumerate(names):
                    if a is None or i >= len(ps) or a == ps[i] \
                            or a not in ps:
                        continue
                    j = ps.index(a)
                    if j < len(names) and names[j] == ps[i]:
                        if (f.qualname, cal.qualname) in SWAP_OK:
                            break
                        hits.append((f, c, cal, a, names[j]))
                        break
    return n, hits


# ---------------------------------------------------------------------------
# like-for-like copies

COPY_OK = {
    ('edb.edgeql.compiler.stmtctx.init_context',
     'toplevel_result_view_name', 'result_view_name'):
        'option name differs from the context field by design',
    ('edb.edgeql.tracer.TracerContext.get_ref_name', 'current_module',
     'module'): 'parameter of resolve_name is called current_module',
    ('edb.edgeql.compiler.config.compile_ConfigSet', 'name', 'param_name'):
        'IR field `name` holds the validated parameter name',
    ('edb.edgeql.compiler.config.compile_ConfigReset', 'name', 'param_name'):
        'same', 
    ('edb.edgeql.compiler.config.compile_ConfigInsert', 'name',
     'param_name'): 'same',
    ('edb.edgeql.compiler.stmt.compile_DeleteQuery', 'result', 'subject'):
        'DELETE is desugared into a SELECT of its subject',
    ('edb.server.compiler.compiler.Compiler.compile',
     'expected_cardinality_one', 'expect_one'): 'renamed option',
    ('edb.server.compiler.compiler.Compiler.compile_in_tx',
     'expected_cardinality_one', 'expect_one'): 'renamed option',
    ('edb.server.compiler.sql.resolve_query', 'current_query', 'query_str'):
        'renamed option',
}


def copy_mismatches(repo: Repo, prefixes: Iterable[str]):
    """In a function that copies >= 3 attributes like-for-like between two
    objects (a.x = b.x, or Ctor(x=b.x, ...)), a copy whose names differ
    (a.weak_refs = b.refs) is a copy-paste slip unless audited."""
    import collections
    from .model import walk_no_nested
    n = 0
    hits = []
    for m in repo.modules.values():
        if not m.name.startswith(tuple(prefixes)):
            continue
        for f in repo._funcs_of(m):
            pairs = []
            for a in walk_no_nested(f.node):
                if isinstance(a, ast.Assign) and len(a.targets) == 1 \
                        and isinstance(a.targets[0], ast.Attribute) \
                        and isinstance(a.value, ast.Attribute) \
                        and isinstance(a.targets[0].value, ast.Name) \
                        and isinstance(a.value.value, ast.Name) \
                        and a.targets[0].value.id != a.value.value.id:
                    pairs.append(((a.targets[0].value.id, a.value.value.id),
                                  a.targets[0].attr, a.value.attr))
            for c in ast.walk(f.node):
                if isinstance(c, ast.Call):
                    for k in c.keywords:
                        if k.arg and isinstance(k.value, ast.Attribute) \
                                and isinstance(k.value.value, ast.Name):
                            pairs.append(((id(c), k.value.value.id), k.arg,
                                          k.value.attr))
            by = collections.defaultdict(list)
            for key, x, y in pairs:
                by[key].append((x, y))
            for key, ps in by.items():
                same = [p for p in ps if p[0] == p[1]]
                need = 3 if isinstance(key[0], str) else 4
                if len(same) < need:
                    continue
                n += 1
                srcs = {y for _x, y in ps}
                for x, y in ps:
                    # copy-paste signature: `y` is also copied to its
                    # namesake, and the mismatched target's own namesake is
                    # never taken from the source object
                    if x != y and (y, y) in ps and x not in srcs and (
                            f.qualname, x, y) not in COPY_OK:
                        hits.append((f, x, y))
    return n, hits


# ---------------------------------------------------------------------------
# mirrored statements

MIRROR_PAIRS = [('left', 'right'), ('our', 'their'), ('self', 'other'),
                ('source', 'target'), ('lhs', 'rhs'), ('larg', 'rarg'),
                ('old', 'new'), ('lower', 'upper'), ('start', 'stop')]
_COMPOUND = (ast.FunctionDef, ast.AsyncFunctionDef, ast.ClassDef, ast.If,
             ast.For, ast.While, ast.With, ast.Try)


def _tokens(t: str):
    import re
    return re.findall(r'[A-Za-z_][A-Za-z_0-9]*|\S', t)


def mirror_slips(repo: Repo, prefixes: Iterable[str]):
    """Two neighbouring simple statements where the second is the first
    with every A-name replaced by its B-name (left/right, our/their, ...)
    except for an A-name that survived."""
    n = 0
    hits = []
    for m in repo.modules.values():
        if not m.name.startswith(tuple(prefixes)):
            continue
        for f in repo._funcs_of(m):
            for blk in ast.walk(f.node):
                body = getattr(blk, 'body', None)
                if not isinstance(body, list):
                    continue
                for i, s1 in enumerate(body):
                    if not isinstance(s1, ast.stmt) or isinstance(
                            s1, _COMPOUND):
                        continue
                    a = _tokens(norm(s1))
                    for A, B in MIRROR_PAIRS:
                        if not any(A in t for t in a) or any(
                                B in t for t in a):
                            continue
                        for s2 in body[i + 1:i + 3]:
                            if isinstance(s2, _COMPOUND):
                                continue
                            b = _tokens(norm(s2))
                            if len(a) != len(b) or not any(
                                    B in t for t in b):
                                continue
                            want = [t.replace(A, B) if A in t else t
                                    for t in a]
                            diff = [(x, y) for x, y in zip(want, b)
                                    if x != y]
                            if len(diff) > 2:
                                continue
                            n += 1
                            slip = [(x, y) for x, y in diff if A in y]
                            if slip:
                                hits.append((f, s2, slip))
    return n, hits


def duplicated_statements(repo: Repo, prefixes: Iterable[str]):
    """The same simple statement twice in a row, where running it a second
    time cannot change anything (an assignment / set update whose right
    side does not read what it writes): the second copy was meant to be
    the sibling (`.left` then `.right`)."""
    n = 0
    hits = []
    for m in repo.modules.values():
        if not m.name.startswith(tuple(prefixes)):
            continue
        for f in repo._funcs_of(m):
            for blk in ast.walk(f.node):
                for fld in ('body', 'orelse', 'finalbody'):
                    body = getattr(blk, fld, None)
                    if not isinstance(body, list):
                        continue
                    for s1, s2 in zip(body, body[1:]):
                        if not isinstance(s1, (ast.Assign, ast.AugAssign,
                                               ast.AnnAssign)):
                            continue
                        n += 1
                        if norm(s1) != norm(s2):
                            continue
                        tg = s1.targets[0] if isinstance(
                            s1, ast.Assign) else s1.target
                        val = s1.value
                        if val is None:
                            continue
                        tname = norm(tg)
                        reads = {norm(x) for x in ast.walk(val)
                                 if isinstance(x, (ast.Name, ast.Attribute,
                                                   ast.Subscript))}
                        if tname in reads:
                            continue
                        if isinstance(s1, ast.AugAssign) and not isinstance(
                                s1.op, (ast.BitOr, ast.BitAnd)):
                            continue
                        hits.append((f, s2))
    return n, hits


# ---------------------------------------------------------------------------
# loops

RESIZE_OK = {
    'edb.server.compiler_pool.queue.WorkerQueue.acquire':
        'returns immediately after removing the chosen worker',
}


def loop_slips(repo: Repo, prefixes: Iterable[str]):
    """(a) a for/while ... else whose loop body can neither break nor
    return: the else arm always runs (usually a dedent slip that moved the
    last statement of the body out of the loop);  (b) a container shrunk
    (or inserted into) while a for loop iterates over it."""
    from .model import walk_no_nested
    n = 0
    hits = []
    for m in repo.modules.values():
        if not m.name.startswith(tuple(prefixes)):
            continue
        for f in repo._funcs_of(m):
            for l in walk_no_nested(f.node):
                if not isinstance(l, (ast.For, ast.While)):
                    continue
                n += 1
                if l.orelse and not any(
                        isinstance(x, (ast.Break, ast.Return))
                        for b in l.body for x in ast.walk(b)):
                    # signature of a dedent slip: the else arm (which always
                    # runs, once) rebinds a name the loop body reads
                    reb = {t.id for b in l.orelse for a in ast.walk(b)
                           if isinstance(a, ast.Assign) for t in a.targets
                           if isinstance(t, ast.Name)}
                    used = {x.id for b in l.body for x in ast.walk(b)
                            if isinstance(x, ast.Name)
                            and isinstance(x.ctx, ast.Load)}
                    if reb & used:
                        hits.append((f, l, f'the else arm of a loop that '
                                     f'never breaks rebinds '
                                     f'{sorted(reb & used)}, which the loop '
                                     f'body reads: the update was meant to '
                                     f'happen in every iteration'))
                # (c) a flag initialised before the loop and read after
                # it is reset to its initial value by every iteration that
                # does not set it (`flag = x if cond else None` at the top
                # level of the body): only the last element counts
                for b in l.body:
                    if not (isinstance(b, ast.Assign) and len(b.targets) == 1
                            and isinstance(b.targets[0], ast.Name)
                            and isinstance(b.value, ast.IfExp)
                            and isinstance(b.value.orelse, ast.Constant)):
                        continue
                    v = b.targets[0].id
                    k = b.value.orelse.value
                    body = getattr(f.node, 'body', [])
                    pre = [a for a in walk_no_nested(f.node)
                           if isinstance(a, ast.Assign) and len(
                               a.targets) == 1 and norm(a.targets[0]) == v
                           and isinstance(a.value, ast.Constant)
                           and a.value.value == k and a.value.value in (
                               None, False) and a.lineno < l.lineno]
                    post = [x for x in walk_no_nested(f.node)
                            if isinstance(x, ast.Name) and x.id == v
                            and isinstance(x.ctx, ast.Load)
                            and x.lineno > (l.end_lineno or l.lineno)]
                    inner = [x for bb in l.body for x in ast.walk(bb)
                             if isinstance(x, ast.Name) and x.id == v
                             and isinstance(x.ctx, ast.Load)]
                    if pre and post and not inner:
                        hits.append((f, l, f'`{norm(b)[:50]}` resets the '
                                     f'flag `{v}` (initialised to {k!r} '
                                     f'before the loop, read after it) in '
                                     f'every iteration that does not set '
                                     f'it: only the last element counts'))
                if isinstance(l, ast.For) and isinstance(
                        l.iter, (ast.Name, ast.Attribute)) \
                        and f.qualname not in RESIZE_OK:
                    v = norm(l.iter)
                    for b in l.body:
                        for x in ast.walk(b):
                            if isinstance(x, ast.Call) and isinstance(
                                    x.func, ast.Attribute) and \
                                    x.func.attr in ('remove', 'pop', 'insert',
                                                    'clear', 'discard') \
                                    and norm(x.func.value) == v:
                                hits.append((f, l, f'`{norm(x)[:40]}` '
                                             f'while iterating {v}'))
                            if isinstance(x, ast.Delete) and any(
                                    isinstance(t, ast.Subscript) and
                                    norm(t.value) == v for t in x.targets):
                                hits.append((f, l, f'`{norm(x)[:40]}` '
                                             f'while iterating {v}'))
    return n, hits


def battery(repo: Repo, ctx, rule: str, prefixes: Iterable[str],
            consequence: str) -> None:
    """Run the slip patterns over the packages a property is anchored in.
    Every pattern has been confirmed to have no unaudited instance on the
    tree the rules were written against."""
    prefixes = list(prefixes)
    ctx.floor(rule, 4)
    n, hits = swapped_arguments(repo, prefixes)
    ctx.ob(rule, 'slips:argument-alignment', not hits,
           '; '.join(f'{f.qualname} passes `{a}` and `{b}` to {cal.name} '
                     f'each in the position of the parameter named like the '
                     f'other' for f, c, cal, a, b in hits[:3]) +
           f' -- {consequence}', hits[0][0].loc if hits else '',
           sample=f'{n} resolved call sites')
    n, hits = copy_mismatches(repo, prefixes)
    ctx.ob(rule, 'slips:like-for-like-copies', not hits,
           '; '.join(f'{f.qualname} copies `{y}` into `{x}` among '
                     f'like-for-like copies' for f, x, y in hits[:3]) +
           f' -- {consequence}', hits[0][0].loc if hits else '',
           sample=f'{n} copy groups')
    n, hits = mirror_slips(repo, prefixes)
    ctx.ob(rule, 'slips:mirrored-statements', not hits,
           '; '.join(f'{f.qualname}: `{norm(s2)[:60]}` mirrors the statement '
                     f'before it except for {slip}' for f, s2, slip in
                     hits[:3]) + f' -- {consequence}',
           hits[0][0].loc if hits else '', sample=f'{n} mirrored pairs')
    n, hits = duplicated_statements(repo, prefixes)
    ctx.ob(rule, 'slips:duplicated-statement', not hits,
           '; '.join(f'{f.qualname}: `{norm(s2)[:60]}` repeats the statement '
                     f'before it and cannot have a second effect (sibling '
                     f'operand never visited)' for f, s2 in hits[:3]) +
           f' -- {consequence}', hits[0][0].loc if hits else '',
           sample=f'{n} assignment pairs')
    n, hits = dropped_forwarding(repo, prefixes)
    ctx.ob(rule, 'slips:option-forwarding', not hits,
           '; '.join(f'{f.qualname} receives `{P}` but calls {cal.name} '
                     f'(which takes `{P}`, defaulted) without passing it '
                     f'on; every other such call in the repository does'
                     for f, c, cal, P in hits[:3]) + f' -- {consequence}',
           hits[0][0].loc if hits else '', sample=f'{n} pass-through sites',
           nontrivial=bool(n))
    n, hits = discarded_updates(repo, prefixes)
    ctx.ob(rule, 'slips:discarded-update', not hits,
           '; '.join(f'{f.qualname}: `{norm(s_)[:60]}` returns the updated '
                     f'value, which is dropped' for f, s_ in hits[:3]) +
           f' -- {consequence}', hits[0][0].loc if hits else '',
           sample=f'{n} call statements', nontrivial=bool(n))
    # (unused_locals() is deliberately not armed: leaving a value unused is
    # behaviour-preserving, so it cannot be a violation signal)
    n, hits = loop_slips(repo, prefixes)
    ctx.ob(rule, 'slips:loops', not hits,
           '; '.join(f'{f.qualname}:{l.lineno - f.node.lineno}: {why}'
                     for f, l, why in hits[:3]) + f' -- {consequence}',
           hits[0][0].loc if hits else '', sample=f'{n} loops')


SCOPE = {
    'C01': (['edb.edgeql.codegen', 'edb.edgeql.quote', 'edb.common.ast'],
            'the printed text no longer re-parses to the same tree'),
    'C02': (['edb.schema'],
            'the computed migration does not reach the target schema'),
    'C03': (['edb.schema', 'edb.edgeql.compiler.normalization',
             'edb.edgeql.codegen'],
            'DESCRIBE output does not rebuild the same schema'),
    'C04': (['edb.schema'],
            'an index of the schema store goes stale or an earlier version '
            'changes'),
    'C05': (['edb.pgsql.delta', 'edb.pgsql.types', 'edb.pgsql.common',
             'edb.pgsql.schemamech', 'edb.pgsql.dbops',
             'edb.pgsql.deltadbops'],
            'backend storage diverges from the schema'),
    'C06': (['edb.edgeql.compiler.inference', 'edb.ir'],
            'an inferred bound is unsound'),
    'C07': (['edb.edgeql.compiler.policies', 'edb.edgeql.compiler.setgen',
             'edb.edgeql.compiler.stmtctx', 'edb.pgsql.compiler.relctx',
             'edb.pgsql.compiler.pathctx', 'edb.pgsql.compiler.context'],
            'a read path escapes the access policies'),
    'C08': (['edb.server.compiler.compiler', 'edb.server.compiler.ddl',
             'edb.server.compiler.dbstate', 'edb.server.compiler.enums',
             'edb.edgeql.compiler.inference.volatility',
             'edb.edgeql.compiler.func', 'edb.schema.functions'],
            'a statement is given capabilities that do not cover it'),
    'C09': (['edb.server.compiler.compiler', 'edb.server.compiler.dbstate',
             'edb.server.compiler.ddl'],
            'compiler session state diverges from the transaction'),
    'C11': (['edb.edgeql.declarative', 'edb.edgeql.tracer',
             'edb.schema.ddl'],
            'the result depends on declaration order'),
    'C12': (['edb.edgeql.compiler', 'edb.schema.types', 'edb.schema.casts',
             'edb.schema.utils', 'edb.schema.scalars'],
            'an inferred type does not cover the evaluated values'),
    'C13': (['edb.pgsql.compiler', 'edb.pgsql.codegen'],
            'the generated SQL is ill-scoped or not deterministic'),
    'C14': (['edb.server.compiler.sertypes'],
            'a descriptor misdescribes the type'),
    'C15': (['edb.server.connpool.pool'], 'the pool oversubscribes'),
    'C16': (['edb.server.connpool.pool'], 'a request can wait forever'),
    'C17': (['edb.server.compiler_pool'],
            'a worker compiles against stale state'),
    'C18': (['edb.edgeql.quote', 'edb.pgsql.common', 'edb.pgsql.dbops.base',
             'edb.common.sourcecode'],
            'quoted text can break out of its quotes'),
    'C19': (['edb.server.config', 'edb.ir.statypes'],
            'configuration is stored or rendered wrongly'),
    'C20': (['edb.common.topological', 'edb.schema.ordering',
             'edb.common.ordered', 'edb.schema.delta'],
            'the ordering violates a dependency'),
}


def for_property(repo: Repo, ctx, prop: str) -> None:
    if prop in SCOPE:
        pf, why = SCOPE[prop]
        battery(repo, ctx, f'{prop}.L', pf, why)


# ---------------------------------------------------------------------------
# keyword forwarding

# Parameters that every one of their (>= 4) caller/callee pairs in the tree
# the rules were written against passes on when the callee has a defaulted
# parameter of the same name.  Frozen here (statistics only discovered the
# candidates; each is a pass-through option by reading).
ALWAYS_FORWARDED = {
    'aspect', 'catenate', 'condition', 'conditions', 'derived_name_base',
    'direction', 'dml_source', 'dml_stmts', 'force', 'localnames',
    'modaliases', 'module', 'neg_conditions', 'newlines', 'object_desc',
    'opaque', 'options', 'parent_node', 'parent_op', 'sourcectx', 'testmode',
    'type_override',
}


def dropped_forwarding(repo: Repo, prefixes: Iterable[str]):
    fr = V.FieldReads(repo)
    n = 0
    hits = []
    for m in repo.modules.values():
        if not m.name.startswith(tuple(prefixes)):
            continue
        for f in repo._funcs_of(m):
            fps = set(f.params()) & ALWAYS_FORWARDED
            if not fps:
                continue
            for c in ast.walk(f.node):
                if not isinstance(c, ast.Call) or any(
                        k.arg is None for k in c.keywords):
                    continue
                cal = fr.resolve_callee(f, c)
                if cal is None or cal is f:
                    continue
                a = cal.node.args
                dflt = {x.arg for x, d in zip(a.kwonlyargs, a.kw_defaults)
                        if d is not None}
                pos = a.posonlyargs + a.args
                if a.defaults:
                    dflt |= {x.arg for x in pos[len(pos) - len(a.defaults):]}
                cps = cal.params()
                off = 1 if (cal.cls is not None and cps
                            and cps[0] in ('self', 'cls')) else 0
                for P in fps & dflt:
                    n += 1
                    idx = cps.index(P) - off
                    if not (any(k.arg == P for k in c.keywords)
                            or len(c.args) > idx):
                        hits.append((f, c, cal, P))
    return n, hits


# ---------------------------------------------------------------------------
# persistent updates whose result is dropped

def discarded_updates(repo: Repo, prefixes: Iterable[str]):
    """`schema.add(...)`, `obj.set_field_value(schema, ...)`,
    `state._replace(...)` and the like return the updated value; calling
    them as a bare statement loses the update."""
    import collections
    ret = collections.defaultdict(set)
    for q, f in repo.functions.items():
        if f.node.returns is None or not q.startswith('edb.'):
            continue
        r = norm(f.node.returns)
        ret[f.name].add('Schema' in r and not any(
            w in r for w in ('Tuple', 'tuple', 'Optional', 'Iterator')))
    schema_methods = {n for n, v in ret.items() if v == {True}}
    n = 0
    hits = []
    for m in repo.modules.values():
        if not m.name.startswith(tuple(prefixes)):
            continue
        for f in repo._funcs_of(m):
            for s in ast.walk(f.node):
                if isinstance(s, ast.Expr) and isinstance(s.value, ast.Call):
                    from .model import call_name
                    nm = (call_name(s.value) or '').split('.')[-1]
                    n += 1
                    if nm in schema_methods or nm == '_replace':
                        hits.append((f, s))
    return n, hits


# ---------------------------------------------------------------------------
# values computed and never used

UNUSED_OK = {
    ('edb.pgsql.compiler.relgen.process_set_as_call', 'key'):
        'loop variable of an items() iteration; only the value is used',
}


def unused_locals(repo: Repo, prefixes: Iterable[str]):
    """A local that is assigned and never read (the repository is flake8
    clean: one audited instance).  A change that stops using a computed
    value - the dependency, the guard result, the forwarded action - leaves
    exactly this trace."""
    import collections
    n = 0
    hits = []
    for m in repo.modules.values():
        if not m.name.startswith(tuple(prefixes)):
            continue
        for f in repo._funcs_of(m):
            if f.parent is not None:
                continue
            n += 1
            stores = collections.defaultdict(list)
            loads = set()
            for x in ast.walk(f.node):
                if isinstance(x, ast.Name):
                    if isinstance(x.ctx, ast.Store):
                        stores[x.id].append(x)
                    else:
                        loads.add(x.id)
                elif isinstance(x, (ast.Global, ast.Nonlocal)):
                    loads |= set(x.names)
            for v, ns in stores.items():
                if v not in loads and not v.startswith('_') and (
                        f.qualname, v) not in UNUSED_OK:
                    hits.append((f, v, ns[0].lineno))
    return n, hits
