"""Repository-wide structural lints shared by several properties."""
from __future__ import annotations

import ast
from typing import Iterable, List, Tuple

from . import visitors as V
from .model import FuncInfo, Repo, norm

# call sites where two arguments are deliberately passed crosswise
SWAP_OK = {
    ('edb.schema.casts.find_common_castable_type',
     'edb.schema.casts.get_implicit_cast_distance'):
        'distance is measured in both directions (source->target and '
        'target->source) on purpose',
}


def swapped_arguments(repo: Repo, prefixes: Iterable[str]
                      ) -> Tuple[int, List[Tuple[FuncInfo, ast.Call,
                                                 FuncInfo, str, str]]]:
    """Positional arguments that are plain names equal to two *different*
    parameter names of the resolved callee, each in the other's position."""
    fr = V.FieldReads(repo)
    n = 0
    hits = []
    for m in repo.modules.values():
        if not m.name.startswith(tuple(prefixes)):
            continue
        for f in repo._funcs_of(m):
            for c in ast.walk(f.node):
                if not isinstance(c, ast.Call) or len(c.args) < 2:
                    continue
                cal = fr.resolve_callee(f, c)
                if cal is None:
                    continue
                ps = cal.params()
                if cal.cls is not None and ps and ps[0] in ('self', 'cls'):
                    ps = ps[1:]
                names = [a.id if isinstance(a, ast.Name) else None
                         for a in c.args]
                n += 1
                for i, a in enumerate(names):
                    if a is None or i >= len(ps) or a == ps[i] \
                            or a not in ps:
                        continue
                    j = ps.index(a)
                    if j < len(names) and names[j] == ps[i]:
                        if (f.qualname, cal.qualname) in SWAP_OK:
                            break
                        hits.append((f, c, cal, a, names[j]))
                        break
    return n, hits


# ---------------------------------------------------------------------------
# like-for-like copies

COPY_OK = {
    ('edb.edgeql.compiler.stmtctx.init_context',
     'toplevel_result_view_name', 'result_view_name'):
        'option name differs from the context field by design',
    ('edb.edgeql.tracer.TracerContext.get_ref_name', 'current_module',
     'module'): 'parameter of resolve_name is called current_module',
    ('edb.edgeql.compiler.config.compile_ConfigSet', 'name', 'param_name'):
        'IR field `name` holds the validated parameter name',
    ('edb.edgeql.compiler.config.compile_ConfigReset', 'name', 'param_name'):
        'same', 
    ('edb.edgeql.compiler.config.compile_ConfigInsert', 'name',
     'param_name'): 'same',
    ('edb.edgeql.compiler.stmt.compile_DeleteQuery', 'result', 'subject'):
        'DELETE is desugared into a SELECT of its subject',
    ('edb.server.compiler.compiler.Compiler.compile',
     'expected_cardinality_one', 'expect_one'): 'renamed option',
    ('edb.server.compiler.compiler.Compiler.compile_in_tx',
     'expected_cardinality_one', 'expect_one'): 'renamed option',
    ('edb.server.compiler.sql.resolve_query', 'current_query', 'query_str'):
        'renamed option',
}


def copy_mismatches(repo: Repo, prefixes: Iterable[str]):
    """In a function that copies >= 3 attributes like-for-like between two
    objects (a.x = b.x, or Ctor(x=b.x, ...)), a copy whose names differ
    (a.weak_refs = b.refs) is a copy-paste slip unless audited."""
    import collections
    from .model import walk_no_nested
    n = 0
    hits = []
    for m in repo.modules.values():
        if not m.name.startswith(tuple(prefixes)):
            continue
        for f in repo._funcs_of(m):
            pairs = []
            for a in walk_no_nested(f.node):
                if isinstance(a, ast.Assign) and len(a.targets) == 1 \
                        and isinstance(a.targets[0], ast.Attribute) \
                        and isinstance(a.value, ast.Attribute) \
                        and isinstance(a.targets[0].value, ast.Name) \
                        and isinstance(a.value.value, ast.Name) \
                        and a.targets[0].value.id != a.value.value.id:
                    pairs.append(((a.targets[0].value.id, a.value.value.id),
                                  a.targets[0].attr, a.value.attr))
            for c in ast.walk(f.node):
                if isinstance(c, ast.Call):
                    for k in c.keywords:
                        if k.arg and isinstance(k.value, ast.Attribute) \
                                and isinstance(k.value.value, ast.Name):
                            pairs.append(((id(c), k.value.value.id), k.arg,
                                          k.value.attr))
            by = collections.defaultdict(list)
            for key, x, y in pairs:
                by[key].append((x, y))
            for key, ps in by.items():
                same = [p for p in ps if p[0] == p[1]]
                need = 3 if isinstance(key[0], str) else 4
                if len(same) < need:
                    continue
                n += 1
                srcs = {y for _x, y in ps}
                for x, y in ps:
                    # copy-paste signature: `y` is also copied to its
                    # namesake, and the mismatched target's own namesake is
                    # never taken from the source object
                    if x != y and (y, y) in ps and x not in srcs and (
                            f.qualname, x, y) not in COPY_OK:
                        hits.append((f, x, y))
    return n, hits


# ---------------------------------------------------------------------------
# mirrored statements

MIRROR_PAIRS = [('left', 'right'), ('our', 'their'), ('self', 'other'),
                ('source', 'target'), ('lhs', 'rhs'), ('larg', 'rarg'),
                ('old', 'new'), ('lower', 'upper'), ('start', 'stop')]
_COMPOUND = (ast.FunctionDef, ast.AsyncFunctionDef, ast.ClassDef, ast.If,
             ast.For, ast.While, ast.With, ast.Try)


def _tokens(t: str):
    import re
    return re.findall(r'[A-Za-z_][A-Za-z_0-9]*|\S', t)


def mirror_slips(repo: Repo, prefixes: Iterable[str]):
    """Two neighbouring simple statements where the second is the first
    with every A-name replaced by its B-name (left/right, our/their, ...)
    except for an A-name that survived."""
    n = 0
    hits = []
    for m in repo.modules.values():
        if not m.name.startswith(tuple(prefixes)):
            continue
        for f in repo._funcs_of(m):
            for blk in ast.walk(f.node):
                body = getattr(blk, 'body', None)
                if not isinstance(body, list):
                    continue
                for i, s1 in enumerate(body):
                    if not isinstance(s1, ast.stmt) or isinstance(
                            s1, _COMPOUND):
                        continue
                    a = _tokens(norm(s1))
                    for A, B in MIRROR_PAIRS:
                        if not any(A in t for t in a) or any(
                                B in t for t in a):
                            continue
                        for s2 in body[i + 1:i + 3]:
                            if isinstance(s2, _COMPOUND):
                                continue
                            b = _tokens(norm(s2))
                            if len(a) != len(b) or not any(
                                    B in t for t in b):
                                continue
                            want = [t.replace(A, B) if A in t else t
                                    for t in a]
                            diff = [(x, y) for x, y in zip(want, b)
                                    if x != y]
                            if len(diff) > 2:
                                continue
                            n += 1
                            slip = [(x, y) for x, y in diff if A in y]
                            if slip:
                                hits.append((f, s2, slip))
    return n, hits


def duplicated_statements(repo: Repo, prefixes: Iterable[str]):
    """The same simple statement twice in a row, where running it a second
    time cannot change anything (an assignment / set update whose right
    side does not read what it writes): the second copy was meant to be
    the sibling (`.left` then `.right`)."""
    n = 0
    hits = []
    for m in repo.modules.values():
        if not m.name.startswith(tuple(prefixes)):
            continue
        for f in repo._funcs_of(m):
            for blk in ast.walk(f.node):
                for fld in ('body', 'orelse', 'finalbody'):
                    body = getattr(blk, fld, None)
                    if not isinstance(body, list):
                        continue
                    for s1, s2 in zip(body, body[1:]):
                        if not isinstance(s1, (ast.Assign, ast.AugAssign,
                                               ast.AnnAssign)):
                            continue
                        n += 1
                        if norm(s1) != norm(s2):
                            continue
                        tg = s1.targets[0] if isinstance(
                            s1, ast.Assign) else s1.target
                        val = s1.value
                        if val is None:
                            continue
                        tname = norm(tg)
                        reads = {norm(x) for x in ast.walk(val)
                                 if isinstance(x, (ast.Name, ast.Attribute,
                                                   ast.Subscript))}
                        if tname in reads:
                            continue
                        if isinstance(s1, ast.AugAssign) and not isinstance(
                                s1.op, (ast.BitOr, ast.BitAnd)):
                            continue
                        hits.append((f, s2))
    return n, hits


# ---------------------------------------------------------------------------
# loops

RESIZE_OK = {
    'edb.server.compiler_pool.queue.WorkerQueue.acquire':
        'returns immediately after removing the chosen worker',
}


def loop_slips(repo: Repo, prefixes: Iterable[str]):
    """(a) a for/while ... else whose loop body can neither break nor
    return: the else arm always runs (usually a dedent slip that moved the
    last statement of the body out of the loop);  (b) a container shrunk
    (or inserted into) while a for loop iterates over it."""
    from .model import walk_no_nested
    n = 0
    hits = []
    for m in repo.modules.values():
        if not m.name.startswith(tuple(prefixes)):
            continue
        for f in repo._funcs_of(m):
            for l in walk_no_nested(f.node):
                if not isinstance(l, (ast.For, ast.While)):
                    continue
                n += 1
                if l.orelse and not any(
                        isinstance(x, (ast.Break, ast.Return))
                        for b in l.body for x in ast.walk(b)):
                    # signature of a dedent slip: the else arm (which always
                    # runs, once) rebinds a name the loop body reads
                    reb = {t.id for b in l.orelse for a in ast.walk(b)
                           if isinstance(a, ast.Assign) for t in a.targets
                           if isinstance(t, ast.Name)}
                    used = {x.id for b in l.body for x in ast.walk(b)
                            if isinstance(x, ast.Name)
                            and isinstance(x.ctx, ast.Load)}
                    if reb & used:
                        hits.append((f, l, f'the else arm of a loop that '
                                     f'never breaks rebinds '
                                     f'{sorted(reb & used)}, which the loop '
                                     f'body reads: the update was meant to '
                                     f'happen in every iteration'))
                # (c) a flag initialised before the loop and read after
                # it is reset to its initial value by every iteration that
                # does not set it (`flag = x if cond else None` at the top
                # level of the body): only the last element counts
                for b in l.body:
                    if not (isinstance(b, ast.Assign) and len(b.targets) == 1
                            and isinstance(b.targets[0], ast.Name)
                            and isinstance(b.value, ast.IfExp)
                            and isinstance(b.value.orelse, ast.Constant)):
                        continue
                    v = b.targets[0].id
                    k = b.value.orelse.value
                    body = getattr(f.node, 'body', [])
                    pre = [a for a in walk_no_nested(f.node)
                           if isinstance(a, ast.Assign) and len(
                               a.targets) == 1 and norm(a.targets[0]) == v
                           and isinstance(a.value, ast.Constant)
                           and a.value.value == k and a.value.value in (
                               None, False) and a.lineno < l.lineno]
                    post = [x for x in walk_no_nested(f.node)
                            if isinstance(x, ast.Name) and x.id == v
                            and isinstance(x.ctx, ast.Load)
                            and x.lineno > (l.end_lineno or l.lineno)]
                    inner = [x for bb in l.body for x in ast.walk(bb)
                             if isinstance(x, ast.Name) and x.id == v
                             and isinstance(x.ctx, ast.Load)]
                    if pre and post and not inner:
                        hits.append((f, l, f'`{norm(b)[:50]}` resets the '
                                     f'flag `{v}` (initialised to {k!r} '
                                     f'before the loop, read after it) in '
                                     f'every iteration that does not set '
                                     f'it: only the last element counts'))
                if isinstance(l, ast.For) and isinstance(
                        l.iter, (ast.Name, ast.Attribute)) \
                        and f.qualname not in RESIZE_OK:
                    v = norm(l.iter)
                    for b in l.body:
                        for x in ast.walk(b):
                            if isinstance(x, ast.Call) and isinstance(
                                    x.func, ast.Attribute) and \
                                    x.func.attr in ('remove', 'pop', 'insert',
                                                    'clear', 'discard') \
                                    and norm(x.func.value) == v:
                                hits.append((f, l, f'`{norm(x)[:40]}` '
                                             f'while iterating {v}'))
                            if isinstance(x, ast.Delete) and any(
                                    isinstance(t, ast.Subscript) and
                                    norm(t.value) == v for t in x.targets):
                                hits.append((f, l, f'`{norm(x)[:40]}` '
                                             f'while iterating {v}'))
    return n, hits


def battery(repo: Repo, ctx, rule: str, prefixes: Iterable[str],
            consequence: str) -> None:
    """Run the slip patterns over the packages a property is anchored in.
    Every pattern has been confirmed to have no unaudited instance on the
    tree the rules were written against."""
    prefixes = list(prefixes)
    ctx.floor(rule, 4)
    n, hits = swapped_arguments(repo, prefixes)
    ctx.ob(rule, 'slips:argument-alignment', not hits,
           '; '.join(f'{f.qualname} passes `{a}` and `{b}` to {cal.name} '
                     f'each in the position of the parameter named like the '
                     f'other' for f, c, cal, a, b in hits[:3]) +
           f' -- {consequence}', hits[0][0].loc if hits else '',
           sample=f'{n} resolved call sites')
    n, hits = copy_mismatches(repo, prefixes)
    ctx.ob(rule, 'slips:like-for-like-copies', not hits,
           '; '.join(f'{f.qualname} copies `{y}` into `{x}` among '
                     f'like-for-like copies' for f, x, y in hits[:3]) +
           f' -- {consequence}', hits[0][0].loc if hits else '',
           sample=f'{n} copy groups')
    n, hits = mirror_slips(repo, prefixes)
    ctx.ob(rule, 'slips:mirrored-statements', not hits,
           '; '.join(f'{f.qualname}: `{norm(s2)[:60]}` mirrors the statement '
                     f'before it except for {slip}' for f, s2, slip in
                     hits[:3]) + f' -- {consequence}',
           hits[0][0].loc if hits else '', sample=f'{n} mirrored pairs')
    n, hits = duplicated_statements(repo, prefixes)
    ctx.ob(rule, 'slips:duplicated-statement', not hits,
           '; '.join(f'{f.qualname}: `{norm(s2)[:60]}` repeats the statement '
                     f'before it and cannot have a second effect (sibling '
                     f'operand never visited)' for f, s2 in hits[:3]) +
           f' -- {consequence}', hits[0][0].loc if hits else '',
           sample=f'{n} assignment pairs')
    n, hits = dropped_forwarding(repo, prefixes)
    ctx.ob(rule, 'slips:option-forwarding', not hits,
           '; '.join(f'{f.qualname} receives `{P}` but calls {cal.name} '
                     f'(which takes `{P}`, defaulted) without passing it '
                     f'on; every other such call in the repository does'
                     for f, c, cal, P in hits[:3]) + f' -- {consequence}',
           hits[0][0].loc if hits else '', sample=f'{n} pass-through sites',
           nontrivial=bool(n))
    n, hits = discarded_updates(repo, prefixes)
    ctx.ob(rule, 'slips:discarded-update', not hits,
           '; '.join(f'{f.qualname}: `{norm(s_)[:60]}` returns the updated '
                     f'value, which is dropped' for f, s_ in hits[:3]) +
           f' -- {consequence}', hits[0][0].loc if hits else '',
           sample=f'{n} call statements', nontrivial=bool(n))
    n, hits = memo_sites(repo, prefixes)
    ctx.ob(rule, 'slips:memo-keys', not hits,
           '; '.join(f'{f.qualname}: memo {cont}: {why}'
                     for f, cont, k, kind, why in hits[:3]) +
           f' -- {consequence}', hits[0][0].loc if hits else '',
           sample=f'{n} memo sites', nontrivial=bool(n))
    n, hits = lossy_key_maps(repo, prefixes)
    ctx.ob(rule, 'slips:lossy-key-maps', not hits,
           '; '.join(f'{f.qualname}: `{norm(c)[:70]}` keeps one element per '
                     f'shortened key: elements whose names differ only in '
                     f'the dropped part (overloads) are lost'
                     for f, c in hits[:3]) + f' -- {consequence}',
           hits[0][0].loc if hits else '', sample=f'{n} dict comprehensions',
           nontrivial=bool(n))
    n, hits = cache_key_equality(repo, prefixes)
    ctx.ob(rule, 'slips:cache-key-equality', not hits,
           '; '.join(f'{f.qualname} is cached process-wide on `{p}`; '
                     f'{k.rsplit(".", 1)[-1]} compares by {eqf} only but '
                     f'the function reads {extra}: an object rebuilt after '
                     f'a change of those fields hits the stale entry'
                     for f, p, k, eqf, extra in hits[:3]) +
           f' -- {consequence}', hits[0][0].loc if hits else '',
           sample=f'{n} class-typed cache parameters', nontrivial=bool(n))
    n, hits = arm_family_slips(repo, prefixes)
    ctx.ob(rule, 'slips:arm-family', not hits,
           '; '.join(f'{f.qualname}: the arm that tests `{t}` assigns {a} '
                     f'while the sibling arms assign the name they test '
                     f'(copied from another arm)' for f, arm, t, a in
                     hits[:3]) + f' -- {consequence}',
           f'{hits[0][0].module.rel()}:{hits[0][1].lineno}' if hits else '',
           sample=f'{n} chains', nontrivial=bool(n))
    n, hits = falsy_member_tests(repo, prefixes)
    ctx.ob(rule, 'slips:falsy-enum-member', not hits,
           '; '.join(f'{f.qualname}: `{t}` tests a {e} field by truthiness '
                     f'while {e}.{mem} is 0: that member counts as "not '
                     f'set"' for f, t, e, mem, _n in hits[:3]) +
           f' -- {consequence}',
           f'{hits[0][0].module.rel()}:{hits[0][4].lineno}' if hits else '',
           sample=f'{n} truthiness tests on int-enum fields',
           nontrivial=bool(n))
    n, hits = invariant_filters(repo, prefixes)
    ctx.ob(rule, 'slips:loop-invariant-filter', not hits,
           '; '.join(f'{f.qualname}: the filter `{t}` of a comprehension '
                     f'over `{it}` does not mention the element it is '
                     f'supposed to select (it tests the same thing for '
                     f'every element: one identifier slipped)'
                     for f, t, it, _n in hits[:3]) + f' -- {consequence}',
           f'{hits[0][0].module.rel()}:{hits[0][3].lineno}' if hits else '',
           sample=f'{n} comprehension filters', nontrivial=bool(n))
    # (unused_locals() is deliberately not armed: leaving a value unused is
    # behaviour-preserving, so it cannot be a violation signal)
    n, hits = loop_slips(repo, prefixes)
    ctx.ob(rule, 'slips:loops', not hits,
           '; '.join(f'{f.qualname}:{l.lineno - f.node.lineno}: {why}'
                     for f, l, why in hits[:3]) + f' -- {consequence}',
           hits[0][0].loc if hits else '', sample=f'{n} loops')


# comprehension filters that call something without mentioning the element:
# audited instances of the tree the rules were written against (the test is
# about the container's owner, deliberately the same for every element)
INVARIANT_FILTER_OK = {
    ('edb.schema.functions', 'cur_type.issubclass(schema, f_type)'),
    ('edb.server.compiler.ddl', 'src.is_material_object_type(schema)'),
}


def falsy_member_tests(repo: Repo, prefixes: Iterable[str]):
    """(function, test text, enum, falsy member, node) for truthiness tests
    (`if x.f:`, `x.f and ..`, `not x.f`) on an attribute that some class
    declares with an IntEnum type one of whose members is 0.  Optional
    int-enum fields are commonly tested that way to mean "is set"; it stops
    meaning that the day a member gets the value 0."""
    memo = getattr(repo, '_falsy_enum_fields', None)
    if memo is None:
        intenums = {}
        for q, c in repo.classes.items():
            if any(norm(b).split('.')[-1] == 'IntEnum'
                   for b in c.node.bases):
                z = [k for k, v in c.assign_fields.items()
                     if isinstance(v, ast.Constant) and v.value == 0
                     and not isinstance(v.value, bool)]
                intenums[c.name] = z
        fields = {}
        for q, c in repo.classes.items():
            for fn_, an in c.ann_fields.items():
                toks = norm(an.annotation).replace('[', ' ').replace(
                    ']', ' ').replace('.', ' ').replace(',', ' ').split()
                for e in intenums:
                    if e in toks:
                        fields.setdefault(fn_, set()).add(e)
        memo = repo._falsy_enum_fields = (intenums, fields)
    intenums, fields = memo
    hits = []
    n = 0
    for m in repo.modules.values():
        if not m.name.startswith(tuple(prefixes)):
            continue
        for f in repo._funcs_of(m):
            if f.parent is not None:
                continue
            tests = []
            for x in ast.walk(f.node):
                if isinstance(x, (ast.If, ast.While, ast.IfExp)):
                    tests.append(x.test)
                elif isinstance(x, ast.Assert):
                    tests.append(x.test)
                elif isinstance(x, ast.comprehension):
                    tests += x.ifs
            seen = set()
            todo = list(tests)
            while todo:
                t = todo.pop()
                if id(t) in seen:
                    continue
                seen.add(id(t))
                if isinstance(t, ast.BoolOp):
                    todo += t.values
                elif isinstance(t, ast.UnaryOp) and isinstance(
                        t.op, ast.Not):
                    todo.append(t.operand)
                elif isinstance(t, ast.Attribute) and t.attr in fields:
                    n += 1
                    for e in sorted(fields[t.attr]):
                        if intenums.get(e):
                            hits.append((f, norm(t), e, intenums[e][0], t))
    return n, hits


def invariant_filters(repo: Repo, prefixes: Iterable[str]):
    """(function, filter text, iterable text, node) for every conjunct of a
    comprehension filter that contains a call and mentions none of the
    comprehension's own variables."""
    hits = []
    n = 0
    for m in repo.modules.values():
        if not m.name.startswith(tuple(prefixes)):
            continue
        for f in repo._funcs_of(m):
            if f.parent is not None:
                continue
            for node in ast.walk(f.node):
                if not isinstance(node, (ast.ListComp, ast.SetComp,
                                         ast.GeneratorExp, ast.DictComp)):
                    continue
                tg = set()
                for g in node.generators:
                    tg |= {x.id for x in ast.walk(g.target)
                           if isinstance(x, ast.Name)}
                for g in node.generators:
                    for cond in g.ifs:
                        n += 1
                        conj = cond.values if isinstance(
                            cond, ast.BoolOp) and isinstance(
                            cond.op, ast.And) else [cond]
                        if len(conj) < 2 and len(node.generators) == 1:
                            # a lone invariant filter selects all or
                            # nothing: unusual but a decision, not a slip
                            # between siblings
                            pass
                        for c in conj:
                            names = {x.id for x in ast.walk(c)
                                     if isinstance(x, ast.Name)}
                            if names & tg or not any(
                                    isinstance(x, ast.Call)
                                    for x in ast.walk(c)):
                                continue
                            t = norm(c)
                            if (m.name, t) in INVARIANT_FILTER_OK:
                                continue
                            hits.append((f, t[:60], norm(g.iter)[:40], node))
    return n, hits


SCOPE = {
    'C01': (['edb.edgeql.codegen', 'edb.edgeql.quote', 'edb.common.ast'],
            'the printed text no longer re-parses to the same tree'),
    'C02': (['edb.schema'],
            'the computed migration does not reach the target schema'),
    'C03': (['edb.schema', 'edb.edgeql.compiler.normalization',
             'edb.edgeql.codegen'],
            'DESCRIBE output does not rebuild the same schema'),
    'C04': (['edb.schema'],
            'an index of the schema store goes stale or an earlier version '
            'changes'),
    'C05': (['edb.pgsql.delta', 'edb.pgsql.types', 'edb.pgsql.common',
             'edb.pgsql.schemamech', 'edb.pgsql.dbops',
             'edb.pgsql.deltadbops', 'edb.pgsql.inheritance'],
            'backend storage diverges from the schema'),
    'C06': (['edb.edgeql.compiler.inference', 'edb.ir'],
            'an inferred bound is unsound'),
    'C07': (['edb.edgeql.compiler.policies', 'edb.edgeql.compiler.setgen',
             'edb.edgeql.compiler.stmtctx', 'edb.pgsql.compiler.relctx',
             'edb.pgsql.compiler.pathctx', 'edb.pgsql.compiler.context'],
            'a read path escapes the access policies'),
    'C08': (['edb.server.compiler.compiler', 'edb.server.compiler.ddl',
             'edb.server.compiler.dbstate', 'edb.server.compiler.enums',
             'edb.edgeql.compiler.inference.volatility',
             'edb.edgeql.compiler.func', 'edb.schema.functions'],
            'a statement is given capabilities that do not cover it'),
    'C09': (['edb.server.compiler.compiler', 'edb.server.compiler.dbstate',
             'edb.server.compiler.ddl'],
            'compiler session state diverges from the transaction'),
    'C11': (['edb.edgeql.declarative', 'edb.edgeql.tracer',
             'edb.schema.ddl'],
            'the result depends on declaration order'),
    'C12': (['edb.edgeql.compiler', 'edb.schema.types', 'edb.schema.casts',
             'edb.schema.utils', 'edb.schema.scalars'],
            'an inferred type does not cover the evaluated values'),
    'C13': (['edb.pgsql.compiler', 'edb.pgsql.codegen'],
            'the generated SQL is ill-scoped or not deterministic'),
    'C14': (['edb.server.compiler.sertypes'],
            'a descriptor misdescribes the type'),
    'C15': (['edb.server.connpool.pool'], 'the pool oversubscribes'),
    'C16': (['edb.server.connpool.pool'], 'a request can wait forever'),
    'C17': (['edb.server.compiler_pool'],
            'a worker compiles against stale state'),
    'C18': (['edb.edgeql.quote', 'edb.pgsql.common', 'edb.pgsql.dbops.base',
             'edb.pgsql.codegen',
             'edb.common.sourcecode'],
            'quoted text can break out of its quotes'),
    'C19': (['edb.server.config', 'edb.ir.statypes'],
            'configuration is stored or rendered wrongly'),
    'C20': (['edb.common.topological', 'edb.schema.ordering',
             'edb.common.ordered', 'edb.schema.delta'],
            'the ordering violates a dependency'),
}


def for_property(repo: Repo, ctx, prop: str) -> None:
    if prop in SCOPE:
        pf, why = SCOPE[prop]
        battery(repo, ctx, f'{prop}.L', pf, why)


# ---------------------------------------------------------------------------
# keyword forwarding

# Parameters that every one of their (>= 4) caller/callee pairs in the tree
# the rules were written against passes on when the callee has a defaulted
# parameter of the same name.  Frozen here (statistics only discovered the
# candidates; each is a pass-through option by reading).
ALWAYS_FORWARDED = {
    'aspect', 'catenate', 'condition', 'conditions', 'derived_name_base',
    'direction', 'dml_source', 'dml_stmts', 'force', 'localnames',
    'modaliases', 'module', 'neg_conditions', 'newlines', 'object_desc',
    'opaque', 'options', 'parent_node', 'parent_op', 'sourcectx', 'testmode',
    'type_override',
}


def dropped_forwarding(repo: Repo, prefixes: Iterable[str]):
    fr = V.FieldReads(repo)
    n = 0
    hits = []
    for m in repo.modules.values():
        if not m.name.startswith(tuple(prefixes)):
            continue
        for f in repo._funcs_of(m):
            fps = set(f.params()) & ALWAYS_FORWARDED
            if not fps:
                continue
            for c in ast.walk(f.node):
                if not isinstance(c, ast.Call) or any(
                        k.arg is None for k in c.keywords):
                    continue
                cal = fr.resolve_callee(f, c)
                if cal is None or cal is f:
                    continue
                a = cal.node.args
                dflt = {x.arg for x, d in zip(a.kwonlyargs, a.kw_defaults)
                        if d is not None}
                pos = a.posonlyargs + a.args
                if a.defaults:
                    dflt |= {x.arg for x in pos[len(pos) - len(a.defaults):]}
                cps = cal.params()
                off = 1 if (cal.cls is not None and cps
                            and cps[0] in ('self', 'cls')) else 0
                for P in fps & dflt:
                    n += 1
                    idx = cps.index(P) - off
                    if not (any(k.arg == P for k in c.keywords)
                            or len(c.args) > idx):
                        hits.append((f, c, cal, P))
    return n, hits


# ---------------------------------------------------------------------------
# persistent updates whose result is dropped

def discarded_updates(repo: Repo, prefixes: Iterable[str]):
    """`schema.add(...)`, `obj.set_field_value(schema, ...)`,
    `state._replace(...)` and the like return the updated value; calling
    them as a bare statement loses the update."""
    import collections
    ret = collections.defaultdict(set)
    for q, f in repo.functions.items():
        if f.node.returns is None or not q.startswith('edb.'):
            continue
        r = norm(f.node.returns)
        ret[f.name].add('Schema' in r and not any(
            w in r for w in ('Tuple', 'tuple', 'Optional', 'Iterator')))
    schema_methods = {n for n, v in ret.items() if v == {True}}
    n = 0
    hits = []
    for m in repo.modules.values():
        if not m.name.startswith(tuple(prefixes)):
            continue
        for f in repo._funcs_of(m):
            for s in ast.walk(f.node):
                if isinstance(s, ast.Expr) and isinstance(s.value, ast.Call):
                    from .model import call_name
                    nm = (call_name(s.value) or '').split('.')[-1]
                    n += 1
                    if nm in schema_methods or nm == '_replace':
                        hits.append((f, s))
    return n, hits


# ---------------------------------------------------------------------------
# values computed and never used

UNUSED_OK = {
    ('edb.pgsql.compiler.relgen.process_set_as_call', 'key'):
        'loop variable of an items() iteration; only the value is used',
}


def unused_locals(repo: Repo, prefixes: Iterable[str]):
    """A local that is assigned and never read (the repository is flake8
    clean: one audited instance).  A change that stops using a computed
    value - the dependency, the guard result, the forwarded action - leaves
    exactly this trace."""
    import collections
    n = 0
    hits = []
    for m in repo.modules.values():
        if not m.name.startswith(tuple(prefixes)):
            continue
        for f in repo._funcs_of(m):
            if f.parent is not None:
                continue
            n += 1
            stores = collections.defaultdict(list)
            loads = set()
            for x in ast.walk(f.node):
                if isinstance(x, ast.Name):
                    if isinstance(x.ctx, ast.Store):
                        stores[x.id].append(x)
                    else:
                        loads.add(x.id)
                elif isinstance(x, (ast.Global, ast.Nonlocal)):
                    loads |= set(x.names)
            for v, ns in stores.items():
                if v not in loads and not v.startswith('_') and (
                        f.qualname, v) not in UNUSED_OK:
                    hits.append((f, v, ns[0].lineno))
    return n, hits


# ---------------------------------------------------------------------------
# memoisation: the key must determine the value

# (function, container) pairs that exist on the tree the rules were written
# against; each was read: the key either covers every input of the cached
# computation or the remaining parameters are pure carriers (context objects,
# the schema the key objects belong to, source spans).
MEMO_AUDITED = {
    ('edb.common.parsing.Precedence.__init_subclass__', 'Precedence.last'),
    ('edb.common.ast.visitor.find_children._find_children', 'visited'),
    ('edb.common.ast.visitor.NodeVisitor.node_visit', 'self.memo'),
    ('edb.common.markup.serializer.base.serialize', 'ctx.memo'),
    ('edb.edgeql.declarative.get_ancestors', 'ancestors'),
    ('edb.edgeql.tracer.trace_Path', 'ctx.visited'),
    ('edb.edgeql.compiler.setgen.update_view_map', 'ctx.view_map'),
    ('edb.edgeql.compiler.stmtctx.declare_view', 'ctx.env.expr_view_cache'),
    ('edb.edgeql.compiler.stmtctx._declare_view_from_schema',
     'ctx.env.schema_view_cache'),
    ('edb.edgeql.compiler.viewgen.process_view', 'ctx.env.shape_type_cache'),
    ('edb.edgeql.compiler.inference.cardinality.infer_cardinality',
     'ctx.inferred_cardinality'),
    ('edb.edgeql.compiler.inference.multiplicity.infer_multiplicity',
     'ctx.inferred_multiplicity'),
    ('edb.edgeql.compiler.inference.volatility._infer_volatility',
     'env.inferred_volatility'),
    ('edb.ir.typeutils.ptrref_from_ptrcls', 'cache'),
    ('edb.pgsql.compiler.dml.compile_iterator_cte', 'ctx.dml_stmts'),
    ('edb.schema.ddl.apply_sdl.process_ext', 'extensions_done'),
    ('edb.schema.delta.ObjectCommand.__init_subclass__', '_command_registry'),
    ('edb.schema.delta.AlterSpecialObjectField.__init_subclass__',
     'special_field_alter_handlers'),
    ('edb.schema.ordering.reconstruct_tree.maybe_replace_preceding',
     'opindex'),
    ('edb.server.compiler.sertypes.StateSerializerFactory.make',
     'self._contexts'),
}
# parameters that carry the computation's environment rather than an input
# the result is a function of
MEMO_CARRIERS = {'self', 'cls', 'ctx', 'env', 'schema', 'span', 'context'}


def _single_defs(fn: ast.AST):
    """local -> value for locals bound exactly once by a plain assignment"""
    cnt, val = {}, {}
    for n in ast.walk(fn):
        if isinstance(n, ast.Name) and isinstance(n.ctx, ast.Store):
            cnt[n.id] = cnt.get(n.id, 0) + 1
        if isinstance(n, ast.Assign) and len(n.targets) == 1 and \
                isinstance(n.targets[0], ast.Name):
            val[n.targets[0].id] = n.value
        if isinstance(n, ast.NamedExpr) and isinstance(n.target, ast.Name):
            val.setdefault(n.target.id, n.value)
    return {k: v for k, v in val.items() if cnt.get(k) == 1}


def _inline(e: ast.AST, defs, depth=3) -> ast.AST:
    import copy
    e = copy.deepcopy(e)
    for _ in range(depth):
        changed = False

        class T(ast.NodeTransformer):
            def visit_Name(self, node):
                nonlocal changed
                if isinstance(node.ctx, ast.Load) and node.id in defs and \
                        not isinstance(defs[node.id], (ast.Call, ast.Await)) \
                        or (isinstance(node.ctx, ast.Load) and node.id in defs
                            and isinstance(defs[node.id], ast.Call)
                            and norm(defs[node.id].func) == 'id'):
                    changed = True
                    return copy.deepcopy(defs[node.id])
                return node
        e = T().visit(e)
        if not changed:
            break
    return e


def _class_level_container(repo: Repo, f, fn, cont: str):
    """`p.attr` where p is a parameter annotated with a class of the same
    module (or self) and attr is a class-level dict / set / list display:
    the name of that class, else None"""
    parts = cont.split('.')
    if len(parts) != 2:
        return None
    root, attr = parts
    cls = None
    if root in ('self', 'cls') and f.cls is not None:
        cls = f.cls
    else:
        a = fn.args
        for x in a.posonlyargs + a.args + a.kwonlyargs:
            if x.arg == root and x.annotation is not None:
                nm = norm(x.annotation).strip('\'"').split('.')[-1]
                cls = f.module.classes.get(nm)
    if cls is None:
        return None
    for qn in repo.mro(cls.qualname):
        c = repo.classes.get(qn)
        if c is None:
            continue
        v = c.assign_fields.get(attr)
        if v is not None:
            if isinstance(v, (ast.Dict, ast.Set, ast.List)) or (
                    isinstance(v, ast.Call) and norm(v.func) in (
                        'dict', 'set', 'list', 'collections.defaultdict',
                        'defaultdict', 'weakref.WeakKeyDictionary',
                        'lru.LRUMapping')):
                # not shadowed per instance in __init__
                init = c.methods.get('__init__')
                if init is not None and any(
                        isinstance(t, ast.Attribute) and t.attr == attr
                        and isinstance(t.value, ast.Name)
                        and t.value.id == 'self'
                        for n in ast.walk(init.node)
                        if isinstance(n, (ast.Assign, ast.AnnAssign))
                        for t in (n.targets if isinstance(n, ast.Assign)
                                  else [n.target])):
                    return None
                return c.name
            return None
    return None


def memo_sites(repo: Repo, prefixes: Iterable[str]):
    """(function, container text, key expr, kind of problem, detail) for
    every lookup-then-store memo in the given packages."""
    out = []
    n_sites = 0
    for m in repo.modules.values():
        if not m.name.startswith(tuple(prefixes)):
            continue
        for f in repo._funcs_of(m):
            fn = f.node
            a = fn.args
            params = [x.arg for x in a.posonlyargs + a.args + a.kwonlyargs]
            defs = _single_defs(fn)
            lookups = []
            for n in ast.walk(fn):
                if isinstance(n, ast.If):
                    tests = n.test.values if isinstance(
                        n.test, ast.BoolOp) else [n.test]
                    for t in tests:
                        if isinstance(t, ast.Compare) and len(t.ops) == 1:
                            # (a hit hands a value back; `if k in seen:
                            # return` is a visited set, not a memo)
                            if isinstance(t.ops[0], ast.In) and any(
                                    isinstance(x, ast.Return) and
                                    x.value is not None and not (
                                        isinstance(x.value, ast.Constant)
                                        and x.value.value is None)
                                    for x in n.body):
                                lookups.append((t.comparators[0], t.left))
                            # (v := C.get(K)) is not None
                            if isinstance(t.ops[0], ast.IsNot) and \
                                    isinstance(t.left, ast.NamedExpr):
                                c = t.left.value
                                if isinstance(c, ast.Call) and isinstance(
                                        c.func, ast.Attribute) and \
                                        c.func.attr == 'get' and c.args:
                                    lookups.append((c.func.value, c.args[0]))
                if isinstance(n, ast.Try):
                    for st in n.body:
                        if isinstance(st, ast.Return) and isinstance(
                                st.value, ast.Subscript) and any(
                                h.type is not None and 'KeyError' in
                                norm(h.type) for h in n.handlers):
                            lookups.append((st.value.value, st.value.slice))
                if isinstance(n, ast.Assign) and isinstance(
                        n.value, ast.Call) and isinstance(
                        n.value.func, ast.Attribute) and \
                        n.value.func.attr == 'get' and n.value.args and \
                        len(n.targets) == 1 and isinstance(
                        n.targets[0], ast.Name) and any(
                        isinstance(r, ast.Return) and isinstance(
                            r.value, ast.Name) and
                        r.value.id == n.targets[0].id
                        for r in ast.walk(fn)):
                    # (a hit is handed back: a registry that only checks for
                    # duplicates is not a memo)
                    lookups.append((n.value.func.value, n.value.args[0]))
                elif isinstance(n, ast.Assign) and isinstance(
                        n.value, ast.Call) and isinstance(
                        n.value.func, ast.Attribute) and \
                        n.value.func.attr == 'get' and n.value.args and \
                        len(n.targets) == 1 and isinstance(
                        n.targets[0], ast.Name):
                    # fetch-or-compute: v = C.get(k); if v is None:
                    #     v = ...; C[k] = v
                    v_ = n.targets[0].id
                    cont_t = norm(n.value.func.value)
                    k_t = norm(n.value.args[0])
                    r_ = cont_t.split('.')[0].split('[')[0]
                    if (r_ in params and r_ not in MEMO_CARRIERS) or any(
                            isinstance(x_, ast.Name) and x_.id == r_
                            and isinstance(x_.ctx, ast.Store)
                            for x_ in ast.walk(fn)):
                        continue     # the caller's table / a local one
                    for i_ in ast.walk(fn):
                        if isinstance(i_, ast.If) and norm(i_.test) in (
                                f'{v_} is None', f'not {v_}') and any(
                                isinstance(a_, ast.Assign) and any(
                                    isinstance(t_, ast.Subscript) and
                                    norm(t_.value) == cont_t and
                                    norm(t_.slice) == k_t
                                    for t_ in a_.targets)
                                for b_ in i_.body for a_ in ast.walk(b_)):
                            lookups.append((n.value.func.value,
                                            n.value.args[0]))
                            break
            seen = set()
            for cont_e, key_e in lookups:
                cont = norm(_inline(cont_e, defs))
                ktxt = norm(key_e)
                if (cont, ktxt) in seen:
                    continue
                stored = False
                for n in ast.walk(fn):
                    if isinstance(n, ast.Assign) and any(
                            isinstance(t, ast.Subscript) and
                            norm(_inline(t.value, defs)) == cont and
                            norm(t.slice) == ktxt for t in n.targets):
                        stored = True
                    if isinstance(n, ast.Call) and isinstance(
                            n.func, ast.Attribute) and n.func.attr in (
                            'add', 'setdefault') and norm(_inline(
                                n.func.value, defs)) == cont and n.args \
                            and norm(n.args[0]) == ktxt:
                        stored = True
                if not stored:
                    continue
                root = cont.split('.')[0].split('[')[0]
                if root in params and root not in MEMO_CARRIERS:
                    continue        # a table the caller passed in
                shared = _class_level_container(repo, f, fn, cont)
                if root in defs or (root not in params and any(
                        isinstance(x, ast.Name) and x.id == root and
                        isinstance(x.ctx, ast.Store)
                        for x in ast.walk(fn))):
                    continue        # a container local to this call
                seen.add((cont, ktxt))
                n_sites += 1
                if (f.qualname.split('@')[0], cont) in MEMO_AUDITED:
                    continue
                key_full = _inline(key_e, defs)
                kn = {x.id for x in ast.walk(key_full)
                      if isinstance(x, ast.Name)}
                used = {x.id for x in ast.walk(fn) if isinstance(x, ast.Name)
                        and isinstance(x.ctx, ast.Load)}
                missing = [p for p in params if p not in kn and p in used
                           and p not in MEMO_CARRIERS and p != root]
                if shared and root in params and root in used:
                    # the table hangs off the carrier's *class*: every
                    # carrier shares it, so what the function reads through
                    # the carrier is an input the key has to cover
                    reads = sorted({norm(x) for x in ast.walk(fn)
                                    if isinstance(x, ast.Attribute)
                                    and isinstance(x.value, ast.Name)
                                    and x.value.id == root
                                    and isinstance(x.ctx, ast.Load)
                                    and norm(x) != cont})
                    reads = [r for r in reads
                             if r.split('.')[-1] not in kn]
                    if reads:
                        out.append((f, cont, ktxt, 'shared-table',
                                    f'`{cont}` is a class-level container of '
                                    f'{shared} (one table for every '
                                    f'instance, for the life of the '
                                    f'process) keyed by `{ktxt}` only, but '
                                    f'the value is computed from '
                                    f'{reads[:3]}: a later call with a '
                                    f'different {root} gets the value '
                                    f'computed for the first one'))
                        continue
                if any(isinstance(x, ast.Call) and norm(x.func) == 'id'
                       for x in ast.walk(key_full)):
                    out.append((f, cont, ktxt, 'identity-key',
                                'the key is id(...) of an object the memo '
                                'does not keep alive: once that object is '
                                'freed its address can be reused and the '
                                'memo answers for a different object'))
                elif missing:
                    out.append((f, cont, ktxt, 'key-misses-input',
                                f'the memo is keyed by `{ktxt}` only, but '
                                f'the function also depends on '
                                f'{missing}: a later call that differs in '
                                f'those gets the value computed for the '
                                f'first one'))
    return n_sites, out


def lossy_key_maps(repo: Repo, prefixes: Iterable[str]):
    """{proj(x): x for x in xs} where proj drops part of the element's name
    (split / partition / lower): elements that collide keep only the last"""
    out = []
    n = 0
    LOSSY = ('split', 'rsplit', 'partition', 'rpartition', 'lower',
             'casefold', 'upper')
    for m in repo.modules.values():
        if not m.name.startswith(tuple(prefixes)):
            continue
        for f in repo._funcs_of(m):
            for c in ast.walk(f.node):
                if not isinstance(c, ast.DictComp):
                    continue
                n += 1
                var = {x.id for g in c.generators for x in ast.walk(g.target)
                       if isinstance(x, ast.Name)}
                key_lossy = any(
                    isinstance(x, ast.Call) and isinstance(
                        x.func, ast.Attribute) and x.func.attr in LOSSY
                    for x in ast.walk(c.key))
                val_is_elem = isinstance(c.value, ast.Name) and \
                    c.value.id in var
                if key_lossy and val_is_elem:
                    out.append((f, c))
    return n, out


def cache_key_equality(repo: Repo, prefixes: Iterable[str]):
    """A process-wide functools cache keyed by an object whose class compares
    by a subset of its fields, while the cached function reads other fields
    of that object: two objects that are `equal` for the cache but differ in
    what the function looks at share one answer (the one computed first)."""
    out = []
    n = 0
    for m in repo.modules.values():
        if not m.name.startswith(tuple(prefixes)):
            continue
        for f in repo._funcs_of(m):
            decs = [norm(d) for d in f.node.decorator_list]
            if not any('lru_cache' in d or d.startswith('functools.cache')
                       and 'cached_property' not in d for d in decs):
                continue
            a = f.node.args
            for p in a.posonlyargs + a.args + a.kwonlyargs:
                if p.annotation is None:
                    continue
                ann = p.annotation
                while isinstance(ann, ast.Subscript):   # Optional[X]
                    ann = ann.slice
                qn = repo.resolve_expr(m, ann)
                if qn is None or qn not in repo.classes:
                    continue
                n += 1
                reads = set()
                called = {id(c.func) for c in ast.walk(f.node)
                          if isinstance(c, ast.Call)}
                for x in ast.walk(f.node):
                    if isinstance(x, ast.Attribute) and isinstance(
                            x.value, ast.Name) and x.value.id == p.arg \
                            and id(x) not in called:
                        reads.add(x.attr)
                if not reads:
                    continue
                for k in repo.subclasses(qn):
                    c = repo.classes[k]
                    eq = c.methods.get('__eq__')
                    if eq is None:
                        continue
                    eq_fields = {x.attr for x in ast.walk(eq.node)
                                 if isinstance(x, ast.Attribute) and
                                 isinstance(x.value, ast.Name) and
                                 x.value.id == 'self'}
                    extra = sorted(reads - eq_fields)
                    if extra:
                        out.append((f, p.arg, k, sorted(eq_fields), extra))
    # classes of the scope whose equality goes through a key subset held in
    # an attribute (`getattr(self, k) for k in self._compare_keys`): two
    # objects with the same key and different payload are equal and hash
    # alike.  A functools cache on a function that takes values of unknown
    # class (annotated Any / object, or not annotated) next to such classes
    # answers for the first payload only.
    partial = []
    for q, c in repo.classes.items():
        if not q.startswith(tuple(prefixes)):
            continue
        eq = c.methods.get('__eq__')
        if eq is None or c.methods.get('__hash__') is None:
            continue
        for x in ast.walk(eq.node):
            if isinstance(x, (ast.GeneratorExp, ast.ListComp)) and len(
                    x.generators) == 1:
                it = x.generators[0].iter
                src = None
                if isinstance(it, ast.Attribute) and norm(
                        it.value) == 'self':
                    src = norm(it)
                elif isinstance(it, ast.Name):
                    for a_ in ast.walk(eq.node):
                        if isinstance(a_, ast.Assign) and norm(
                                a_.targets[0]) == it.id and isinstance(
                                a_.value, ast.Attribute) and norm(
                                a_.value.value) == 'self':
                            src = norm(a_.value)
                if src and any(isinstance(y, ast.Call) and norm(
                        y.func) == 'getattr' for y in ast.walk(x.elt)):
                    partial.append((c.name, src))
                    break
    if partial:
        for m in repo.modules.values():
            if not m.name.startswith(tuple(prefixes)):
                continue
            for f in repo._funcs_of(m):
                decs = [norm(d) for d in f.node.decorator_list]
                if not any('lru_cache' in d or (
                        d.startswith('functools.cache')
                        and 'cached_property' not in d) for d in decs):
                    continue
                a = f.node.args
                for p in a.posonlyargs + a.args + a.kwonlyargs:
                    ann = norm(p.annotation) if p.annotation is not None \
                        else ''
                    if p.arg in ('self', 'cls'):
                        continue
                    if ann.split('.')[-1] in ('Any', 'object') or not ann:
                        n += 1
                        out.append((f, p.arg, partial[0][0],
                                    [partial[0][1]],
                                    ['every field outside ' + partial[0][1]]))
                        break
    return n, out


def arm_family_slips(repo: Repo, prefixes: Iterable[str]):
    """if/elif chains whose arms each test one member of a family of names
    and assign a member of the same family: `if t is A: r = A elif t is B:
    r = B elif t is C: r = A` -- the last arm copies another arm's value."""
    out = []
    n = 0
    for m in repo.modules.values():
        if not m.name.startswith(tuple(prefixes)):
            continue
        for f in repo._funcs_of(m):
            heads = set()
            for t in ast.walk(f.node):
                if isinstance(t, ast.If):
                    for o in t.orelse:
                        if isinstance(o, ast.If) and len(t.orelse) == 1:
                            heads.add(id(o))
            for t in ast.walk(f.node):
                if not isinstance(t, ast.If) or id(t) in heads:
                    continue
                arms = []
                cur = t
                while True:
                    arms.append(cur)
                    if len(cur.orelse) == 1 and isinstance(
                            cur.orelse[0], ast.If):
                        cur = cur.orelse[0]
                    else:
                        break
                if len(arms) < 3:
                    continue
                test_names = [{x.id for x in ast.walk(a.test)
                               if isinstance(x, ast.Name)} for a in arms]
                assigned = []
                for a in arms:
                    s_ = set()
                    for st in a.body:
                        if isinstance(st, ast.Assign) and isinstance(
                                st.value, ast.Name):
                            s_.add(st.value.id)
                    assigned.append(s_)
                # a name that occurs in exactly one arm's test tells that
                # arm apart from its siblings
                from collections import Counter
                cnt = Counter(x for tn in test_names for x in tn)
                own = [{x for x in tn if cnt[x] == 1} for tn in test_names]
                if sum(1 for o in own if o) < 3:
                    continue
                n += 1
                good = bad = 0
                slip = None
                for i, (a, o, an) in enumerate(zip(arms, own, assigned)):
                    if not o or not an:
                        continue
                    others = set().union(*(own[j] for j in range(len(own))
                                           if j != i))
                    if an & o:
                        good += 1
                    elif an & others:
                        bad += 1
                        slip = (a, sorted(o)[0], sorted(an & others))
                if good >= 2 and bad == 1:
                    out.append((f, slip[0], slip[1], slip[2]))
    return n, out
