"""Repository-wide structural lints shared by several properties."""
from __future__ import annotations

import ast
from typing import Iterable, List, Tuple

from . import visitors as V
from .model import FuncInfo, Repo, norm

# call sites where two arguments are deliberately passed crosswise
SWAP_OK = {
    ('edb.schema.casts.find_common_castable_type',
     'edb.schema.casts.get_implicit_cast_distance'):
        'distance is measured in both directions (source->target and '
        'target->source) on purpose',
}


def swapped_arguments(repo: Repo, prefixes: Iterable[str]
                      ) -> Tuple[int, List[Tuple[FuncInfo, ast.Call,
                                                 FuncInfo, str, str]]]:
    """Positional arguments that are plain names equal to two *different*
    parameter names of the resolved callee, each in the other's position."""
    fr = V.FieldReads(repo)
    n = 0
    hits = []
    for m in repo.modules.values():
        if not m.name.startswith(tuple(prefixes)):
            continue
        for f in repo._funcs_of(m):
            for c in ast.walk(f.node):
                if not isinstance(c, ast.Call) or len(c.args) < 2:
                    continue
                cal = fr.resolve_callee(f, c)
                if cal is None:
                    continue
                ps = cal.params()
                if cal.cls is not None and ps and ps[0] in ('self', 'cls'):
                    ps = ps[1:]
                names = [a.id if isinstance(a, ast.Name) else None
                         for a in c.args]
                n += 1
                for i, a in enumerate(names):
                    if a is None or i >= len(ps) or a == ps[i] \
                            or a not in ps:
                        continue
                    j = ps.index(a)
                    if j < len(names) and names[j] == ps[i]:
                        if (f.qualname, cal.qualname) in SWAP_OK:
                            break
                        hits.append((f, c, cal, a, names[j]))
                        break
    return n, hits
