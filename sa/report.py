"""Findings, obligations, known-findings file, evidence writer, exit codes."""
from __future__ import annotations

import json
import os
import re
import time
from typing import Any, Dict, List, Optional

VERIF = os.path.dirname(os.path.dirname(os.path.abspath(__file__)))
KNOWN_FILE = os.path.join(VERIF, 'known_findings.txt')


class Finding:
    def __init__(self, rule: str, construct: str, message: str,
                 loc: str = '', detail: Optional[dict] = None):
        self.rule = rule
        self.construct = construct
        self.message = message
        self.loc = loc
        self.detail = detail or {}

    def key(self) -> str:
        return f'{self.rule} {self.construct}'

    def to_json(self) -> dict:
        d = {'rule': self.rule, 'construct': self.construct,
             'message': self.message, 'loc': self.loc}
        if self.detail:
            d['detail'] = self.detail
        return d


class Ctx:
    """Per-check collector.  A rule calls `ob(...)` once per obligation it
    examined (discharged or not) and `fail(...)` for each violated one."""

    def __init__(self, prop: str, tier: str):
        self.prop = prop
        self.tier = tier
        self.findings: List[Finding] = []
        self.obligations = 0
        self.discharged = 0
        self.rule_instances: Dict[str, int] = {}
        self.rule_floor: Dict[str, int] = {}
        self.samples: List[Any] = []
        self.sample_per_rule: Dict[str, int] = {}
        self.constructs: set = set()
        self.functions_analysed: set = set()
        self.unresolved: List[str] = []
        self.notes: List[str] = []
        self.not_decided: List[str] = []
        self.explanation = ''
        self.assumptions: List[str] = []
        self.extra: Dict[str, Any] = {}
        self.undecided: List[Finding] = []

    # -- obligations ---------------------------------------------------
    def ob(self, rule: str, construct: str, ok: bool, message: str = '',
           loc: str = '', sample: Any = None, detail: Optional[dict] = None,
           nontrivial: bool = True) -> bool:
        self.obligations += 1
        self.rule_instances[rule] = self.rule_instances.get(rule, 0) + 1
        if nontrivial:
            self.constructs.add((rule, construct))
        from . import absint
        pend, absint.PENDING = absint.PENDING, None
        if ok:
            self.discharged += 1
        elif pend is not None and getattr(pend, 'undecided', None) and \
                not os.environ.get('VERIF_NO_UNDECIDED'):
            # the function now decides the matter through tests the
            # assumed conditions do not name: neither held nor violated
            self.undecided.append(Finding(
                rule, construct, message + ' -- UNDECIDED: the open paths '
                'still branch on ' + '; '.join(
                    repr(u) for u in pend.undecided[:4]) +
                ', which the assumed conditions do not determine', loc,
                detail))
            ok = None
        elif self._delegated(loc):
            self.undecided.append(Finding(
                rule, construct, message + ' -- UNDECIDED: the function '
                'now hands part of its work to ' + ', '.join(
                    self._delegated(loc)) + ', which the baseline tree did '
                'not have and which could not be inlined back; the rule '
                'cannot be decided on the caller alone', loc, detail))
            ok = None
        else:
            self.findings.append(Finding(rule, construct, message, loc,
                                         detail))
        n = self.sample_per_rule.get(rule, 0)
        if n < 3 or not ok:
            self.sample_per_rule[rule] = n + 1
            s = {'rule': rule, 'construct': construct, 'ok': ok}
            if loc:
                s['loc'] = loc
            if sample is not None:
                s['fact'] = sample
            elif message:
                s['fact'] = message
            self.samples.append(s)
        return ok

    def _delegated(self, loc: str) -> List[str]:
        if os.environ.get('VERIF_NO_UNDECIDED') or not loc:
            return []
        try:
            from . import model
            if model.CURRENT is None:
                return []
            return model.CURRENT.delegates_to_new(loc)
        except Exception:
            return []

    def fail(self, rule, construct, message, loc='', detail=None):
        return self.ob(rule, construct, False, message, loc, detail=detail)

    def floor(self, rule: str, minimum: int = 1) -> None:
        """The rule must have matched at least `minimum` instances."""
        self.rule_floor[rule] = minimum

    def saw(self, fn) -> None:
        self.functions_analysed.add(getattr(fn, 'qualname', str(fn)))


def load_known() -> Dict[str, List[dict]]:
    out: Dict[str, List[dict]] = {}
    if not os.path.exists(KNOWN_FILE):
        return out
    pat = re.compile(
        r'^known:\s+property=(C\d+)\s+rule=(\S+)\s+construct=(\S+)\s+(.*)$')
    with open(KNOWN_FILE) as f:
        for line in f:
            line = line.strip()
            m = pat.match(line)
            if m:
                out.setdefault(m.group(1), []).append({
                    'rule': m.group(2), 'construct': m.group(3),
                    'what': m.group(4)})
    return out


def finish(ctx: Ctx, t0: float, seed: int) -> int:
    """Write evidence, print verdict lines, return the exit code."""
    from .model import AnalysisError  # noqa
    known = load_known().get(ctx.prop, [])
    known_keys = {(k['rule'], k['construct']): k for k in known}
    unlisted = []
    listed = []
    for f in ctx.findings:
        k = known_keys.get((f.rule, f.construct))
        if k is not None:
            listed.append((f, k))
        else:
            unlisted.append(f)

    # fail-closed: a rule with zero instances passes vacuously
    vacuous = [r for r, mn in ctx.rule_floor.items()
               if ctx.rule_instances.get(r, 0) < mn]

    # tools (seed re-evaluation, fuzzers) redirect their throw-away evidence
    ev_dir = os.environ.get('VERIF_EVIDENCE_DIR') or os.path.join(
        VERIF, 'evidence')
    os.makedirs(ev_dir, exist_ok=True)
    ev_path = os.path.join(ev_dir, f'{ctx.prop}.json')
    viol_path = os.path.join(ev_dir, f'{ctx.prop}.violation.json')

    coverage = {
        'explanation': ctx.explanation,
        'obligations': ctx.obligations,
        'discharged': ctx.discharged + len(listed),
        'checker_cmd': f'/venv/bin/python /verif/check {ctx.prop} --tier {ctx.tier}',
        'trusted_base': ['python ast', 'sa/model.py resolver',
                         'sa/cfg.py CFG', 'frozen exception tables in the rule module'],
        'evaluations': max(ctx.obligations, 1),
        'distinct_nontrivial': len(ctx.constructs),
        'rule': ('one obligation per (rule, construct) instance found in '
                 'the current source; distinct_nontrivial counts distinct '
                 '(rule, construct) pairs whose obligation is not vacuous'),
        'samples': ctx.samples[:60],
        'rules': {r: {'instances': n, 'floor': ctx.rule_floor.get(r, 0)}
                  for r, n in sorted(ctx.rule_instances.items())},
        'functions_analysed': len(ctx.functions_analysed),
        'unresolved': ctx.unresolved[:50],
        'not_decided': ctx.not_decided,
        'known_findings': [f.to_json() for f, _ in listed],
        'unlisted_findings': [f.to_json() for f in unlisted],
        'undecided': [f.to_json() for f in ctx.undecided],
        'exhaustive': True,
    }
    coverage.update(ctx.extra)
    ev = {
        'property_id': ctx.prop,
        'tier': ctx.tier,
        'seed': seed,
        'level': 'other',
        'coverage': coverage,
        'assumptions': ctx.assumptions + ctx.notes,
        'wall_s': round(time.time() - t0, 3),
        'violations': len(unlisted),
    }
    with open(ev_path, 'w') as f:
        json.dump(ev, f, indent=1, sort_keys=True, default=str)
        f.write('\n')

    for f, k in listed:
        print(f'KNOWN-FINDING: property={ctx.prop} rule={f.rule} '
              f'construct={f.construct} {f.message} [{f.loc}]')

    if unlisted:
        with open(viol_path, 'w') as f:
            json.dump([x.to_json() for x in unlisted], f, indent=1,
                      default=str)
            f.write('\n')
        for x in unlisted:
            print(f'FINDING property={ctx.prop} rule={x.rule} '
                  f'construct={x.construct} at {x.loc}: {x.message}')
        print(f'VIOLATION property={ctx.prop} replay={viol_path}')
        return 1
    if ctx.undecided:
        for x in ctx.undecided:
            print(f'ANALYSIS-ERROR property={ctx.prop} rule={x.rule} '
                  f'construct={x.construct} at {x.loc}: {x.message}')
        return 2
    if vacuous:
        for r in vacuous:
            print(f'ANALYSIS-ERROR property={ctx.prop} rule={r} matched '
                  f'{ctx.rule_instances.get(r, 0)} instances, needs >= '
                  f'{ctx.rule_floor[r]} (anchor vanished; rule would pass '
                  f'vacuously)')
        return 2

    if os.path.exists(viol_path):
        os.unlink(viol_path)
    print(f'OK property={ctx.prop} tier={ctx.tier} '
          f'obligations={ctx.obligations} discharged={ctx.discharged} '
          f'known={len(listed)} rules={len(ctx.rule_instances)} '
          f'wall={ev["wall_s"]}s')
    return 0
