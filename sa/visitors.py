"""Field-read analysis and constructor-field extraction for AST families
(DESIGN §2.3 / Appendix C.2)."""
from __future__ import annotations

import ast
from typing import Dict, List, Optional, Set, Tuple

from .model import ClassInfo, FuncInfo, Repo, const_str, dotted, norm


def constructed(repo: Repo, modules: List[str], alias: str, family_mod: str
                ) -> Dict[str, Dict[str, List[Tuple[str, int]]]]:
    """For every `<alias>.X(k=..., ...)` call in the given modules where X is
    a class of family_mod: {X qualname: {field: [(module rel, line), ...]}}.
    Also records attribute stores on a value just built that way when the
    store is `<name>.<attr> = ...` and <name> was bound to such a call in
    the same function, and `self.val.<attr> = ...` after
    `self.val = <alias>.X(...)`."""
    out: Dict[str, Dict[str, List[Tuple[str, int]]]] = {}
    for mn in modules:
        m = repo.modules.get(mn)
        if m is None:
            continue
        for fn in repo._funcs_of(m):
            bound: Dict[str, str] = {}
            for n in ast.walk(fn.node):
                if isinstance(n, ast.Call):
                    q = _family_class(repo, m, n.func, family_mod)
                    if q:
                        d = out.setdefault(q, {})
                        d.setdefault('<ctor>', []).append((m.rel(), n.lineno))
                        for k in n.keywords:
                            if k.arg:
                                d.setdefault(k.arg, []).append(
                                    (m.rel(), n.lineno))
                            else:
                                d.setdefault('<**kwargs>', []).append(
                                    (m.rel(), n.lineno))
                        # positional args map onto declared field order
                        if n.args:
                            fields = list(repo.class_fields(q))
                            for i, a in enumerate(n.args):
                                if isinstance(a, ast.Starred):
                                    break
                                if i < len(fields):
                                    d.setdefault(fields[i], []).append(
                                        (m.rel(), n.lineno))
                if isinstance(n, ast.Assign) and isinstance(n.value, ast.Call):
                    q = _family_class(repo, m, n.value.func, family_mod)
                    if q:
                        for t in n.targets:
                            bound[norm(t)] = q
            for n in ast.walk(fn.node):
                if isinstance(n, (ast.Assign, ast.AugAssign)):
                    tg = n.targets if isinstance(n, ast.Assign) else [n.target]
                    for t in tg:
                        if isinstance(t, ast.Attribute):
                            base = norm(t.value)
                            if base in bound:
                                out.setdefault(bound[base], {}).setdefault(
                                    t.attr, []).append((m.rel(), n.lineno))
    grammar_attr_stores(repo, modules, family_mod, out)
    return out


def grammar_attr_stores(repo: Repo, modules: List[str], family_mod: str,
                        out: Dict[str, Dict[str, List[Tuple[str, int]]]]
                        ) -> None:
    """Attribute stores `self.val.<attr> = ...` in grammar reductions whose
    `self.val` was taken over from a child non-terminal
    (`self.val = kids[i].val`): attribute them to the node classes that
    child can produce (resolved through the reduce method's name or its
    %reduce docstring, transitively)."""
    nts: Dict[str, ClassInfo] = {}
    for mn in modules:
        m = repo.modules.get(mn)
        if m is None:
            continue
        for c in m.classes.values():
            nts[c.name] = c

    def symbols(fn: FuncInfo) -> List[str]:
        doc = ast.get_docstring(fn.node) or ''
        if '%reduce' in doc:
            body = doc.split('%reduce', 1)[1].replace('\\', ' ')
            return body.split()
        nm = fn.name[len('reduce_'):] if fn.name.startswith('reduce_') \
            else ''
        return nm.split('_') if nm else []

    memo: Dict[str, Set[str]] = {}

    def produces(nt: str, depth: int = 0) -> Set[str]:
        if nt in memo:
            return memo[nt]
        memo[nt] = set()
        res: Set[str] = set()
        c = nts.get(nt)
        if c is None or depth > 8:
            return res
        for fn in c.methods.values():
            if not fn.name.startswith('reduce'):
                continue
            syms = symbols(fn)
            for n in ast.walk(fn.node):
                if isinstance(n, ast.Assign) and any(
                        norm(t) == 'self.val' for t in n.targets):
                    v = n.value
                    if isinstance(v, ast.Call):
                        q = _family_class(repo, fn.module, v.func,
                                          family_mod)
                        if q:
                            res.add(q)
                    i = _kid_index(v)
                    if i is not None and i < len(syms):
                        res |= produces(syms[i], depth + 1)
            for d in fn.node.decorator_list:
                if isinstance(d, ast.Call) and norm(d.func).endswith(
                        'inline') and d.args and isinstance(
                            d.args[0], ast.Constant):
                    i = d.args[0].value
                    if i < len(syms):
                        res |= produces(syms[i], depth + 1)
        # inherited reductions (class bases within the grammar)
        for b in c.bases:
            bn = b.split('.')[-1]
            if bn in nts and bn != nt:
                res |= produces(bn, depth + 1)
        memo[nt] = res
        return res

    for nt, c in nts.items():
        for fn in c.methods.values():
            if not fn.name.startswith('reduce'):
                continue
            syms = symbols(fn)
            src: Set[str] = set()
            for n in walk_stmts_in_order(fn.node):
                if isinstance(n, ast.Assign) and any(
                        norm(t) == 'self.val' for t in n.targets):
                    src = set()
                    v = n.value
                    if isinstance(v, ast.Call):
                        q = _family_class(repo, fn.module, v.func,
                                          family_mod)
                        if q:
                            src = {q}
                    i = _kid_index(v)
                    if i is not None and i < len(syms):
                        src = produces(syms[i])
                elif isinstance(n, (ast.Assign, ast.AugAssign)):
                    tg = n.targets if isinstance(n, ast.Assign) \
                        else [n.target]
                    for t in tg:
                        if isinstance(t, ast.Attribute) and norm(
                                t.value) == 'self.val':
                            for q in src:
                                out.setdefault(q, {}).setdefault(
                                    t.attr, []).append(
                                        (fn.module.rel(), n.lineno))


def walk_stmts_in_order(fn_node):
    stack = list(reversed(fn_node.body))
    while stack:
        st = stack.pop()
        yield st
        for fld in ('finalbody', 'orelse', 'body'):
            sub = getattr(st, fld, None)
            if sub and isinstance(sub, list) and not isinstance(
                    st, (ast.FunctionDef, ast.ClassDef)):
                stack.extend(reversed(sub))


def _kid_index(v: ast.AST) -> Optional[int]:
    """kids[i].val -> i"""
    if isinstance(v, ast.Attribute) and v.attr == 'val' and isinstance(
            v.value, ast.Subscript) and norm(v.value.value) == 'kids' \
            and isinstance(v.value.slice, ast.Constant):
        return v.value.slice.value
    return None


def _family_class(repo: Repo, m, func: ast.AST, family_mod: str
                  ) -> Optional[str]:
    d = dotted(func)
    if not d:
        return None
    q = repo.resolve(m, d)
    if q in repo.classes and repo.classes[q].module.name == family_mod:
        return q
    return None


def _test_only_nodes(root: ast.AST) -> Set[int]:
    """ids of Attribute nodes that are merely tested for truth / None."""
    out: Set[int] = set()

    def mark(e):
        if isinstance(e, ast.Attribute):
            out.add(id(e))
        elif isinstance(e, ast.BoolOp):
            for v in e.values:
                mark(v)
        elif isinstance(e, ast.UnaryOp) and isinstance(e.op, ast.Not):
            mark(e.operand)
        elif isinstance(e, ast.Compare) and len(e.ops) == 1 and isinstance(
                e.ops[0], (ast.Is, ast.IsNot)) and isinstance(
                e.comparators[0], ast.Constant) and \
                e.comparators[0].value is None:
            mark(e.left)

    for n in ast.walk(root):
        if isinstance(n, (ast.If, ast.While, ast.IfExp, ast.Assert)):
            mark(n.test)
        elif isinstance(n, ast.comprehension):
            for c in n.ifs:
                mark(c)
    return out


class FieldReads:
    """reads(f, param): attribute names read on a parameter, transitively
    through calls that pass the parameter on unchanged."""

    def __init__(self, repo: Repo, owner: Optional[ClassInfo] = None,
                 depth: int = 5, value_only: bool = False):
        self.repo = repo
        self.owner = owner
        self.depth = depth
        # value_only: a read that only tests the field for presence
        # (`if node.x:`, `node.x is not None`) does not count
        self.value_only = value_only
        self.memo: Dict[Tuple[str, str], Set[str]] = {}

    def resolve_callee(self, fn: FuncInfo, call: ast.Call
                       ) -> Optional[FuncInfo]:
        f = call.func
        if isinstance(f, ast.Attribute) and isinstance(f.value, ast.Name) \
                and f.value.id == 'self':
            cls = self.owner or fn.cls
            if cls is None and fn.parent is not None:
                p = fn.parent
                while p is not None and p.cls is None:
                    p = p.parent
                cls = p.cls if p else None
            if cls is not None:
                return self.repo.find_method(cls.qualname, f.attr)
        if isinstance(f, ast.Attribute) and isinstance(f.value, ast.Call) \
                and isinstance(f.value.func, ast.Name) \
                and f.value.func.id == 'super':
            cls = fn.cls
            if cls is not None:
                for k in self.repo.mro(cls.qualname)[1:]:
                    c = self.repo.classes.get(k)
                    if c and f.attr in c.methods:
                        return c.methods[f.attr]
        d = dotted(f)
        if d:
            q = self.repo.resolve(fn.module, d)
            if q in self.repo.functions:
                return self.repo.functions[q]
            # local closure
            cand = f'{fn.qualname}.{d}'
            if cand in self.repo.functions:
                return self.repo.functions[cand]
        return None

    def reads(self, fn: FuncInfo, param: str, _depth: int = 0) -> Set[str]:
        key = (fn.qualname, param)
        if key in self.memo:
            return self.memo[key]
        self.memo[key] = set()
        out: Set[str] = set()
        names = {param}
        # aliases  x = node
        for n in ast.walk(fn.node):
            if isinstance(n, ast.Assign) and isinstance(n.value, ast.Name) \
                    and n.value.id in names:
                for t in n.targets:
                    if isinstance(t, ast.Name):
                        names.add(t.id)
        skip = _test_only_nodes(fn.node) if self.value_only else set()
        for n in ast.walk(fn.node):
            if isinstance(n, ast.Attribute) and isinstance(n.value, ast.Name) \
                    and n.value.id in names:
                if id(n) in skip:
                    continue
                out.add(n.attr)
            elif isinstance(n, ast.Call):
                cn = dotted(n.func)
                if cn in ('getattr', 'hasattr') and len(n.args) >= 2 and \
                        isinstance(n.args[0], ast.Name) and \
                        n.args[0].id in names:
                    s = const_str(n.args[1])
                    if s:
                        out.add(s)
                    else:
                        out |= self._string_values(fn, n.args[1])
                if _depth < self.depth:
                    def _is_node(a):
                        # the node itself, or a rewritten copy of it
                        # produced by a helper taking only the node
                        return (isinstance(a, ast.Name) and a.id in names
                                ) or (isinstance(a, ast.Call)
                                      and isinstance(a.func, ast.Attribute)
                                      and norm(a.func.value) == 'self'
                                      and len(a.args) == 1
                                      and not a.keywords
                                      and isinstance(a.args[0], ast.Name)
                                      and a.args[0].id in names)
                    pos = [i for i, a in enumerate(n.args) if _is_node(a)]
                    kws = [k.arg for k in n.keywords if k.arg and isinstance(
                        k.value, ast.Name) and k.value.id in names]
                    if pos or kws:
                        tgt = self.resolve_callee(fn, n)
                        if tgt is not None:
                            ps = tgt.params()
                            off = 1 if (tgt.cls is not None and ps and
                                        ps[0] in ('self', 'cls')) else 0
                            for i in pos:
                                if i + off < len(ps):
                                    out |= self.reads(tgt, ps[i + off],
                                                      _depth + 1)
                            for k in kws:
                                if k in ps:
                                    out |= self.reads(tgt, k, _depth + 1)
                            # string field names handed to a helper together
                            # with the node:  helper(node, 'field')
                            for a in n.args:
                                s = const_str(a)
                                if s:
                                    out.add('<str>' + s)
        self.memo[key] = out
        return out

    def _string_values(self, fn: FuncInfo, e: ast.AST) -> Set[str]:
        """Possible constant string values of a name in fn (loop var over a
        literal tuple/list, or assigned constants)."""
        out: Set[str] = set()
        if not isinstance(e, ast.Name):
            return out
        for n in ast.walk(fn.node):
            if isinstance(n, (ast.For, ast.comprehension)) and \
                    norm(n.target) == e.id and isinstance(
                        n.iter, (ast.Tuple, ast.List)):
                for x in n.iter.elts:
                    s = const_str(x)
                    if s:
                        out.add(s)
            if isinstance(n, ast.Assign) and any(
                    norm(t) == e.id for t in n.targets):
                s = const_str(n.value)
                if s:
                    out.add(s)
        return out


def singledispatch_registry(repo: Repo, module: str, fname: str
                            ) -> Dict[str, FuncInfo]:
    """{registered class qualname: handler} for `@<fname>.register` /
    `@<fname>.register(T)` handlers defined in `module` (type from the
    decorator argument or the first parameter's annotation; unions and
    stacked registrations supported)."""
    m = repo.module(module)
    out: Dict[str, FuncInfo] = {}
    for fn in repo._funcs_of(m):
        if fn.parent is not None or fn.cls is not None:
            continue
        for d in fn.node.decorator_list:
            target = d.func if isinstance(d, ast.Call) else d
            if norm(target) != f'{fname}.register':
                continue
            types: List[ast.AST] = []
            if isinstance(d, ast.Call) and d.args:
                types = list(d.args)
            else:
                a = fn.node.args.posonlyargs + fn.node.args.args
                if a and a[0].annotation is not None:
                    types = [a[0].annotation]
            flat: List[ast.AST] = []
            for t in types:
                flat.extend(_union_members(t))
            for t in flat:
                if isinstance(t, ast.Constant) and isinstance(t.value, str):
                    try:
                        t = ast.parse(t.value, mode='eval').body
                    except SyntaxError:
                        continue
                q = repo.resolve_expr(m, t)
                if q:
                    out[q] = fn
    return out


def _union_members(t: ast.AST) -> List[ast.AST]:
    if isinstance(t, ast.BinOp) and isinstance(t.op, ast.BitOr):
        return _union_members(t.left) + _union_members(t.right)
    if isinstance(t, ast.Subscript) and norm(t.value).endswith('Union'):
        s = t.slice
        return list(s.elts) if isinstance(s, ast.Tuple) else [s]
    if isinstance(t, ast.Tuple):
        out = []
        for e in t.elts:
            out += _union_members(e)
        return out
    return [t]


def dispatch(repo: Repo, registry: Dict[str, FuncInfo], cls_q: str
             ) -> Optional[FuncInfo]:
    for k in repo.mro(cls_q):
        if k in registry:
            return registry[k]
    return None
