"""Statement-level control-flow graph for a Python function, with
exceptional edges and suspension points.  stdlib only.

Nodes
  entry, exit (normal return / fall off the end), raise (exception leaves)
  stmt   a simple statement (ast.stmt)
  test   a branch condition (ast.expr) with 'T'/'F' out-edges
  for    loop header of a for statement: 'T' = next item, 'F' = exhausted
  with   evaluation of the context managers of a with statement
  except entry of an except clause (ast.ExceptHandler)
  match  subject of a match statement; 'case' edges to each case node
  case   one case pattern: 'T' matched / 'F' not matched

Edge labels: 'n' normal, 'T', 'F', 'exc' exceptional.

`finally` bodies are copied once per continuation kind so that facts are not
merged across fall-through / return / break / continue / re-raise.
"""
from __future__ import annotations

import ast
from typing import Callable, Dict, Iterable, List, Optional, Set, Tuple

CANNOT_RAISE = {
    'len', 'isinstance', 'issubclass', 'bool', 'id', 'type', 'callable',
    'time.monotonic', 'time.time', 'repr', 'str', 'tuple', 'list', 'set',
    'frozenset', 'dict', 'reversed', 'sorted', 'enumerate', 'range', 'zip',
    'hasattr', 'print', 'min', 'max', 'logger.debug', 'logger.info',
    'logger.warning', 'logger.error', 'logger.exception', 'log.debug',
}


class Node:
    __slots__ = ('id', 'kind', 'ast', 'succ', 'pred', 'tag')

    def __init__(self, id_: int, kind: str, node=None, tag: str = ''):
        self.id = id_
        self.kind = kind
        self.ast = node
        self.succ: List[Tuple[int, str]] = []
        self.pred: List[Tuple[int, str]] = []
        self.tag = tag

    @property
    def lineno(self) -> int:
        return getattr(self.ast, 'lineno', 0)

    def __repr__(self):
        t = ''
        if self.ast is not None:
            try:
                t = ast.unparse(self.ast).split('\n')[0][:60]
            except Exception:
                t = type(self.ast).__name__
        return f'<{self.id}:{self.kind}{"/" + self.tag if self.tag else ""} {t}>'


def _dotted(node):
    parts = []
    while isinstance(node, ast.Attribute):
        parts.append(node.attr)
        node = node.value
    if isinstance(node, ast.Name):
        parts.append(node.id)
        return '.'.join(reversed(parts))
    return None


def _cr(cannot_raise, d: Optional[str]) -> bool:
    if d is None:
        return False
    if callable(cannot_raise):
        return bool(cannot_raise(d))
    return d in cannot_raise


def expr_may_raise(e: Optional[ast.AST], cannot_raise) -> bool:
    if e is None:
        return False
    stack = [e]
    while stack:
        n = stack.pop()
        if isinstance(n, (ast.Lambda, ast.FunctionDef, ast.AsyncFunctionDef,
                          ast.ClassDef)):
            continue
        if isinstance(n, (ast.Await, ast.Yield, ast.YieldFrom)):
            return True
        if isinstance(n, ast.Call):
            d = _dotted(n.func)
            if not _cr(cannot_raise, d):
                return True
        stack.extend(ast.iter_child_nodes(n))
    return False


def has_await(e: Optional[ast.AST]) -> bool:
    if e is None:
        return False
    stack = [e]
    while stack:
        n = stack.pop()
        if isinstance(n, (ast.Lambda, ast.FunctionDef, ast.AsyncFunctionDef,
                          ast.ClassDef)):
            continue
        if isinstance(n, ast.Await):
            return True
        stack.extend(ast.iter_child_nodes(n))
    return False


class _Loop:
    def __init__(self, cont: int):
        self.cont = cont
        self.breaks: List[Tuple[int, str]] = []


class _Try:
    def __init__(self, node: ast.Try):
        self.node = node
        self.handlers: List[Tuple[int, ast.ExceptHandler]] = []
        self.in_body = True            # exceptions reach the handlers
        self.final_cache: Dict[str, Tuple[int, List[Tuple[int, str]]]] = {}


class CFG:
    def __init__(self, fn, catch_all: Iterable[str] = ('Exception',
                                                       'BaseException'),
                 cannot_raise: Optional[Set[str]] = None,
                 raise_everywhere: bool = True,
                 raise_pred: Optional[Callable[[ast.AST], bool]] = None,
                 assert_raises: bool = True):
        """fn: ast.FunctionDef / AsyncFunctionDef (or any object with .body).

        catch_all: exception class names (last dotted component) whose
        handlers are treated as catching everything that can arrive.
        """
        self.fn = fn
        self.nodes: List[Node] = []
        self.catch_all = set(catch_all)
        self.cannot_raise = CANNOT_RAISE if cannot_raise is None \
            else cannot_raise
        self.raise_everywhere = raise_everywhere
        self.raise_pred = raise_pred
        self.assert_raises = assert_raises
        self.entry = self._new('entry').id
        self.exit = self._new('exit').id
        self.raise_ = self._new('raise').id
        self._frames: list = []
        self._stmt_node: Dict[int, List[int]] = {}
        out = self._block(fn.body, [(self.entry, 'n')])
        self._connect(out, self.exit)
        for n in self.nodes:
            for s, lab in n.succ:
                self.nodes[s].pred.append((n.id, lab))
        self._dom = None
        self._pdom = None

    # -- construction --------------------------------------------------
    def _new(self, kind, node=None, tag='') -> Node:
        n = Node(len(self.nodes), kind, node, tag)
        self.nodes.append(n)
        if node is not None:
            self._stmt_node.setdefault(id(node), []).append(n.id)
        return n

    def _edge(self, a: int, b: int, lab: str):
        if (b, lab) not in self.nodes[a].succ:
            self.nodes[a].succ.append((b, lab))

    def _connect(self, dangling, target: int):
        for a, lab in dangling:
            self._edge(a, target, lab)

    def _block(self, stmts, preds):
        cur = preds
        for st in stmts:
            if not cur:
                # unreachable code: still build it (detached) so lookups work
                cur = []
            cur = self._stmt(st, cur)
        return cur

    def _raise_from(self, nid: int, depth: Optional[int] = None):
        """Route an exception raised at node nid through the frames."""
        self._route('exc', [(nid, 'exc')], depth)

    def _route(self, kind: str, dangling, depth: Optional[int] = None):
        """kind in exc/return/break/continue."""
        if depth is None:
            depth = len(self._frames)
        i = depth - 1
        while i >= 0:
            fr = self._frames[i]
            if isinstance(fr, _Loop):
                if kind == 'break':
                    fr.breaks.extend(dangling)
                    return
                if kind == 'continue':
                    self._connect(dangling, fr.cont)
                    return
            elif isinstance(fr, _Try):
                if kind == 'exc' and fr.in_body and fr.handlers:
                    caught_all = False
                    for hid, h in fr.handlers:
                        self._connect(dangling, hid)
                        if self._is_catch_all(h):
                            caught_all = True
                            break
                    if caught_all:
                        return
                if fr.node.finalbody:
                    key = kind
                    if key not in fr.final_cache:
                        saved = self._frames
                        self._frames = self._frames[:i]
                        first = self._new('stmt', None, tag=f'finally:{kind}')
                        outs = self._block(fr.node.finalbody,
                                           [(first.id, 'n')])
                        self._frames = saved
                        fr.final_cache[key] = (first.id, outs)
                        self._connect(dangling, first.id)
                        dangling = outs
                    else:
                        first_id, outs = fr.final_cache[key]
                        self._connect(dangling, first_id)
                        return  # continuation already routed
            i -= 1
        if kind == 'exc':
            self._connect(dangling, self.raise_)
        elif kind == 'return':
            self._connect(dangling, self.exit)
        else:
            # break/continue outside a loop: malformed; send to exit
            self._connect(dangling, self.exit)

    def _is_catch_all(self, h: ast.ExceptHandler) -> bool:
        if h.type is None:
            return True
        types = h.type.elts if isinstance(h.type, ast.Tuple) else [h.type]
        for t in types:
            d = _dotted(t)
            if d and d.split('.')[-1] in self.catch_all:
                return True
        return False

    def _mr(self, e) -> bool:
        if e is None:
            return False
        if self.raise_pred is not None:
            return bool(self.raise_pred(e))
        return expr_may_raise(e, self.cannot_raise)

    def _simple(self, st, preds, kind='stmt', may_raise_expr=None):
        n = self._new(kind, st)
        self._connect(preds, n.id)
        mr = st if may_raise_expr is None else may_raise_expr
        if isinstance(st, ast.Raise) or (
                isinstance(st, ast.Assert) and self.assert_raises) \
                or self._mr(mr):
            self._raise_from(n.id)
        return n

    def _stmt(self, st, preds):
        if isinstance(st, (ast.FunctionDef, ast.AsyncFunctionDef,
                           ast.ClassDef)):
            n = self._new('stmt', st, tag='def')
            self._connect(preds, n.id)
            return [(n.id, 'n')]
        if isinstance(st, ast.Return):
            n = self._simple(st, preds)
            self._route('return', [(n.id, 'n')])
            return []
        if isinstance(st, ast.Raise):
            n = self._new('stmt', st)
            self._connect(preds, n.id)
            self._raise_from(n.id)
            return []
        if isinstance(st, ast.Break):
            n = self._new('stmt', st)
            self._connect(preds, n.id)
            self._route('break', [(n.id, 'n')])
            return []
        if isinstance(st, ast.Continue):
            n = self._new('stmt', st)
            self._connect(preds, n.id)
            self._route('continue', [(n.id, 'n')])
            return []
        if isinstance(st, ast.If):
            t = self._new('test', st.test)
            self._connect(preds, t.id)
            if self._mr(st.test):
                self._raise_from(t.id)
            a = self._block(st.body, [(t.id, 'T')])
            b = self._block(st.orelse, [(t.id, 'F')]) if st.orelse \
                else [(t.id, 'F')]
            return a + b
        if isinstance(st, ast.While):
            t = self._new('test', st.test, tag='while')
            self._connect(preds, t.id)
            if self._mr(st.test):
                self._raise_from(t.id)
            lp = _Loop(t.id)
            self._frames.append(lp)
            body_out = self._block(st.body, [(t.id, 'T')])
            self._frames.pop()
            self._connect(body_out, t.id)
            const_true = isinstance(st.test, ast.Constant) and st.test.value
            f_out = [] if const_true else [(t.id, 'F')]
            if st.orelse:
                f_out = self._block(st.orelse, f_out)
            return f_out + lp.breaks
        if isinstance(st, (ast.For, ast.AsyncFor)):
            h = self._new('for', st)
            self._connect(preds, h.id)
            if self._mr(st.iter) or isinstance(
                    st, ast.AsyncFor):
                self._raise_from(h.id)
            lp = _Loop(h.id)
            self._frames.append(lp)
            body_out = self._block(st.body, [(h.id, 'T')])
            self._frames.pop()
            self._connect(body_out, h.id)
            f_out = [(h.id, 'F')]
            if st.orelse:
                f_out = self._block(st.orelse, f_out)
            return f_out + lp.breaks
        if isinstance(st, (ast.With, ast.AsyncWith)):
            w = self._new('with', st)
            self._connect(preds, w.id)
            exprs = [i.context_expr for i in st.items]
            if any(self._mr(e) for e in exprs) \
                    or isinstance(st, ast.AsyncWith):
                self._raise_from(w.id)
            return self._block(st.body, [(w.id, 'n')])
        if isinstance(st, ast.Try) or (hasattr(ast, 'TryStar') and
                                       isinstance(st, ast.TryStar)):
            fr = _Try(st)
            depth_outer = len(self._frames)
            self._frames.append(fr)
            for h in st.handlers:
                hn = self._new('except', h)
                fr.handlers.append((hn.id, h))
            fr.in_body = True
            body_out = self._block(st.body, preds)
            fr.in_body = False
            if st.orelse:
                body_out = self._block(st.orelse, body_out)
            outs = list(body_out)
            for hid, h in fr.handlers:
                outs += self._block(h.body, [(hid, 'n')])
            self._frames.pop()
            if st.finalbody:
                if outs:
                    first = self._new('stmt', None, tag='finally:fall')
                    self._connect(outs, first.id)
                    outs = self._block(st.finalbody, [(first.id, 'n')])
                else:
                    outs = []
            return outs
        if isinstance(st, ast.Match):
            m = self._new('match', st.subject)
            self._connect(preds, m.id)
            if self._mr(st.subject):
                self._raise_from(m.id)
            outs = []
            cur = [(m.id, 'n')]
            for case in st.cases:
                c = self._new('case', case)
                self._connect(cur, c.id)
                outs += self._block(case.body, [(c.id, 'T')])
                irrefutable = (isinstance(case.pattern, ast.MatchAs)
                               and case.pattern.pattern is None
                               and case.guard is None)
                cur = [] if irrefutable else [(c.id, 'F')]
            return outs + cur
        # simple statements
        n = self._simple(st, preds)
        return [(n.id, 'n')]

    # -- lookups -------------------------------------------------------
    def nodes_of(self, astnode) -> List[int]:
        return self._stmt_node.get(id(astnode), [])

    def find(self, pred: Callable[[Node], bool]) -> List[int]:
        return [n.id for n in self.nodes if pred(n)]

    def find_calls(self, name_pred: Callable[[str], bool]) -> List[int]:
        """Nodes whose own expression (not nested block) contains a call whose
        dotted name satisfies name_pred."""
        out = []
        for n in self.nodes:
            for c in self.node_calls(n):
                d = _dotted(c.func)
                if d and name_pred(d):
                    out.append(n.id)
                    break
        return out

    def node_exprs(self, n: Node) -> List[ast.AST]:
        """The expressions evaluated *at* this node (not in nested blocks)."""
        a = n.ast
        if a is None:
            return []
        if n.kind == 'test' or n.kind == 'match':
            return [a]
        if n.kind == 'for':
            return [a.iter, a.target]
        if n.kind == 'with':
            out = []
            for i in a.items:
                out.append(i.context_expr)
                if i.optional_vars is not None:
                    out.append(i.optional_vars)
            return out
        if n.kind == 'except':
            return [a.type] if a.type is not None else []
        if n.kind == 'case':
            return [a.pattern] + ([a.guard] if a.guard else [])
        if n.kind == 'stmt':
            if n.tag == 'def':
                return []
            return [a]
        return []

    def node_calls(self, n: Node) -> List[ast.Call]:
        out = []
        for e in self.node_exprs(n):
            stack = [e]
            while stack:
                x = stack.pop()
                if isinstance(x, (ast.Lambda, ast.FunctionDef,
                                  ast.AsyncFunctionDef, ast.ClassDef)):
                    continue
                if isinstance(x, ast.Call):
                    out.append(x)
                stack.extend(ast.iter_child_nodes(x))
        return out

    def is_suspension(self, n: Node) -> bool:
        if n.kind == 'for' and isinstance(n.ast, ast.AsyncFor):
            return True
        if n.kind == 'with' and isinstance(n.ast, ast.AsyncWith):
            return True
        return any(has_await(e) for e in self.node_exprs(n))

    # -- queries -------------------------------------------------------
    def reachable(self, src: Iterable[int], avoid: Iterable[int] = (),
                  labels: Optional[Set[str]] = None,
                  stop_at: Iterable[int] = (),
                  avoid_edges: Iterable[Tuple[int, str]] = ()) -> Set[int]:
        """Nodes reachable from src (exclusive of src unless on a cycle)
        along edges whose label is in `labels` (all if None), never entering
        a node in `avoid`; nodes in stop_at are reached but not expanded."""
        avoid = set(avoid)
        stop = set(stop_at)
        ae = set(avoid_edges)
        seen: Set[int] = set()
        stack = list(src)
        while stack:
            a = stack.pop()
            for b, lab in self.nodes[a].succ:
                if labels is not None and lab not in labels:
                    continue
                if ae and (a, lab) in ae:
                    continue
                if b in avoid or b in seen:
                    continue
                seen.add(b)
                if b not in stop:
                    stack.append(b)
        return seen

    def always_before(self, a: int, b_set: Iterable[int],
                      labels: Optional[Set[str]] = None) -> bool:
        """Every path entry -> a passes through a node of b_set."""
        b_set = set(b_set)
        if a in b_set:
            return True
        return a not in self.reachable([self.entry], avoid=b_set,
                                       labels=labels)

    def edge_dominates(self, test: int, label: str, target: int) -> bool:
        """Every path entry -> target takes the edge (test, label)."""
        if target == self.entry:
            return False
        return target not in self.reachable(
            [self.entry], avoid_edges={(test, label)})

    def always_after(self, a: int, b_set: Iterable[int],
                     exits: Optional[Iterable[int]] = None,
                     labels: Optional[Set[str]] = None,
                     first_labels: Optional[Set[str]] = None,
                     avoid_edges: Iterable[Tuple[int, str]] = ()) -> bool:
        """Every path from a to an exit node passes through b_set."""
        b_set = set(b_set)
        ex = set(exits) if exits is not None else {self.exit, self.raise_}
        if first_labels is not None:
            srcs = [s for s, lab in self.nodes[a].succ if lab in first_labels
                    and s not in b_set]
            if any(s in ex for s in srcs):
                return False
            r = self.reachable(srcs, avoid=b_set, labels=labels,
                               avoid_edges=avoid_edges) | set(srcs)
        else:
            r = self.reachable([a], avoid=b_set, labels=labels,
                               avoid_edges=avoid_edges)
        return not (r & ex)

    def path_avoiding(self, src: int, dst: Iterable[int],
                      avoid: Iterable[int] = (),
                      labels: Optional[Set[str]] = None,
                      first_labels: Optional[Set[str]] = None
                      ) -> Optional[List[Tuple[int, str]]]:
        """Shortest path (list of (node, label-taken-to-reach)) or None."""
        avoid = set(avoid)
        dst = set(dst)
        from collections import deque
        prev: Dict[int, Tuple[int, str]] = {}
        q = deque()
        for b, lab in self.nodes[src].succ:
            if first_labels is not None and lab not in first_labels:
                continue
            if labels is not None and lab not in labels:
                continue
            if b in avoid or b in prev:
                continue
            prev[b] = (src, lab)
            q.append(b)
        found = None
        while q:
            a = q.popleft()
            if a in dst:
                found = a
                break
            for b, lab in self.nodes[a].succ:
                if labels is not None and lab not in labels:
                    continue
                if b in avoid or b in prev:
                    continue
                prev[b] = (a, lab)
                q.append(b)
        if found is None:
            return None
        path = []
        cur = found
        while cur != src or not path:
            p, lab = prev[cur]
            path.append((cur, lab))
            cur = p
            if cur == src:
                break
        path.reverse()
        return path

    def describe_path(self, path) -> List[str]:
        out = []
        for nid, lab in path or []:
            n = self.nodes[nid]
            out.append(f'-{lab}-> L{n.lineno}:{n!r}')
        return out

    def paths(self, src: int, dst: Iterable[int], limit: int = 4096,
              labels: Optional[Set[str]] = None,
              cut: Iterable[int] = ()) -> List[List[Tuple[int, str]]]:
        """Enumerate simple paths (each node at most once; loop bodies taken
        0 or 1 time) from src to any node in dst.  Nodes in `cut` terminate a
        path as if they were destinations.  Raises OverflowError past limit."""
        dst = set(dst) | set(cut)
        res = []
        stack = [(src, [(src, '')], {src})]
        while stack:
            a, path, seen = stack.pop()
            for b, lab in self.nodes[a].succ:
                if labels is not None and lab not in labels:
                    continue
                if b in dst:
                    res.append(path + [(b, lab)])
                    if len(res) > limit:
                        raise OverflowError('path bound hit')
                    continue
                if b in seen:
                    continue
                stack.append((b, path + [(b, lab)], seen | {b}))
        return res

    def dump(self) -> str:
        lines = []
        for n in self.nodes:
            lines.append(f'{n!r} -> {n.succ}')
        return '\n'.join(lines)
