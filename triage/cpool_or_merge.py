"""Demonstration for C17.R4: sync_worker_state_cb merges beliefs with `or`.

Runs the real AbstractPool._compute_compile_preargs (function source lifted
from edb/server/compiler_pool/pool.py; the module itself needs Cython
imports) against a fake worker that applies the received slots exactly like
worker.__sync__ does.  History on one database:
   request 1: database_config = X = {'a': 1}
   request 2: database_config = Y = {}      (CONFIGURE CURRENT DATABASE RESET a)
   request 3: database_config = X again
After request 2 the worker holds Y, but the server still believes X
(`database_config or worker_db.database_config` keeps X because Y is falsy),
so request 3 sends nothing and the worker compiles with Y instead of X.
exit 1 = stale state used.
"""
import ast, asyncio, functools, os, pickle, sys, collections
import immutables

REPO = os.environ.get('VERIF_REPO', '/repo')
src = open(os.path.join(REPO, 'edb/server/compiler_pool/pool.py')).read()
tree = ast.parse(src)
fn = None
for c in tree.body:
    if isinstance(c, ast.ClassDef) and c.name == 'AbstractPool':
        for f in c.body:
            if isinstance(f, ast.AsyncFunctionDef) and f.name == '_compute_compile_preargs':
                fn = f
mod = ast.Module(body=[fn], type_ignores=[])
class state:  # stub of compiler_pool.state
    PickledDatabaseState = collections.namedtuple(
        'PickledDatabaseState', 'user_schema_pickle reflection_cache database_config')
class BaseWorker: pass
ns = dict(state=state, functools=functools, BaseWorker=BaseWorker,
          _pickle_memoized=lambda v: pickle.dumps(dict(v), -1))
exec(compile(mod, 'pool.py', 'exec'), ns)
compute = ns['_compute_compile_preargs']

class W(BaseWorker):
    def __init__(self):
        self._dbs = immutables.Map(); self._global_schema_pickle = None; self._system_config = None
        self.actual = {}   # what the worker process really holds
    def apply(self, preargs):
        _, dbname, us, rc, gs, dc, sc = preargs
        for k, v in (('user_schema', us), ('reflection_cache', rc), ('global_schema', gs),
                     ('database_config', dc), ('system_config', sc)):
            if v is not None:
                self.actual[k] = pickle.loads(v) if k != 'user_schema' and k != 'global_schema' else v

async def main():
    w = W()
    US, GS = b'user-schema', b'global-schema'
    RC = immutables.Map({'r': ('x',)}); SC = immutables.Map({'s': 1})
    X = immutables.Map({'a': 1}); Y = immutables.Map()
    for step, cfg in enumerate((X, Y, X), 1):
        preargs, cb = await compute(None, 'compile', w, 'db', US, GS, RC, cfg, SC)
        w.apply(preargs)
        if cb: cb()                      # request succeeded -> acknowledge
        print(f'request {step}: supplied={dict(cfg)} sent_slot={"<sent>" if preargs[5] is not None else None} '
              f'worker_holds={w.actual["database_config"]} server_believes={dict(w._dbs["db"].database_config)}')
    stale = w.actual['database_config'] != dict(X)
    return 1 if stale else 0

rc = asyncio.new_event_loop().run_until_complete(main())
print('STALE-STATE' if rc else 'OK')
sys.exit(rc)
