"""Triage (never used by a check): real edb/server/connpool/pool.py.

capacity 1: `a` holds the only connection, `b` is queued (a waiter, no
connection); `prune_inactive_connections('b')` marks b's block suppressed
although somebody is waiting on it.  Every later tick then puts the block on
its drop list and `_drop_block` fails `assert not block.count_waiters()`: the
tick aborts before it serves the waitlist / rebalances, for the whole pool.
Under `python -O` the block is dropped with its waiter still queued and the
waiter is never served.

usage: t.py [repo-root]   exit 0 = no tick failed and b was served
"""
import asyncio, os, sys
sys.path.insert(0, os.path.join(os.path.dirname(os.path.abspath(__file__)), '..'))
import pool_load

ROOT = sys.argv[1] if len(sys.argv) > 1 else '/repo'
poolmod = pool_load.load(ROOT)


async def main():
    async def connect(db):
        await asyncio.sleep(0.001)
        return object()

    async def disconnect(c):
        await asyncio.sleep(0.001)
    loop = asyncio.get_running_loop()
    errors = []
    loop.set_exception_handler(lambda l, c: errors.append(c.get('exception')))
    pool = poolmod.Pool(connect=connect, disconnect=disconnect, max_capacity=1)
    ca = await pool.acquire('a')
    tb = loop.create_task(pool.acquire('b'))
    await asyncio.sleep(0.01)
    await pool.prune_inactive_connections('b')
    # let a few ticks run
    await asyncio.sleep(0.5)
    pool.release('a', ca)
    try:
        cb = await asyncio.wait_for(tb, 2)
        served = True
        pool.release('b', cb)
    except asyncio.TimeoutError:
        served = False
    print('tick failures:', [type(e).__name__ for e in errors][:3],
          f'({len(errors)})', '| b served:', served)
    return 0 if (served and not errors) else 1

sys.exit(asyncio.run(main()))
