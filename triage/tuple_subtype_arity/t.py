"""Triage (never used by a check): the real Collection._issubclass /
get_common_parent_type_distance / is_type_compatible of edb/schema/types.py
walk zip(subtypes_a, subtypes_b) without comparing lengths: a tuple type
passes for a tuple type of another arity.  Stand-ins provide only the
accessors those function bodies call.
usage: t.py [repo-root]    exit 0 = arity is taken into account"""
import os, sys
sys.path.insert(0, os.path.dirname(os.path.abspath(__file__)))
import harness
ROOT = sys.argv[1] if len(sys.argv) > 1 else '/repo'
harness.install(ROOT)
from edb.schema import types as s_types


class Scalar:
    def __init__(self, name):
        self.name = name
    def is_any(self, schema): return False
    def is_anyobject(self, schema): return False
    def issubclass(self, schema, parent): return parent is self
    def get_common_parent_type_distance(self, other, schema):
        return 0 if other is self else -1
    def __eq__(self, o): return self is o
    def __hash__(self): return id(self)


class FakeTuple(s_types.Tuple):
    """real Tuple class (so that `__class__ is` tests pass); only the
    schema accessors are replaced"""
    def __new__(cls, subs):
        return object.__new__(cls)
    def __init__(self, subs):
        object.__setattr__(self, '_subs', subs)
    def get_subtypes(self, schema): return tuple(self._subs)
    def iter_subtypes(self, schema):
        return iter((str(i), s) for i, s in enumerate(self._subs))
    def is_any(self, schema): return False
    def is_anyobject(self, schema): return False
    def get_is_persistent(self, schema): return False
    def material_type(self, schema): return schema, self
    def __eq__(self, o): return self is o
    def __hash__(self): return id(self)


int64, str_ = Scalar('int64'), Scalar('str')
t1, t2 = FakeTuple([int64]), FakeTuple([int64, str_])
bad = 0
r = s_types.Collection._issubclass(t2, None, t1)
print('tuple<int64,str>.issubclass(tuple<int64>) ->', r); bad += bool(r)
r = s_types.Collection._issubclass(t1, None, t2)
print('tuple<int64>.issubclass(tuple<int64,str>) ->', r); bad += bool(r)
d = s_types.Collection.get_common_parent_type_distance(t2, t1, None)
print('common-parent distance tuple<int64,str> ~ tuple<int64> ->', d); bad += d >= 0
c = s_types.is_type_compatible(t1, t2, schema=None)
print('is_type_compatible(tuple<int64>, tuple<int64,str>) ->', c); bad += bool(c)
sys.exit(1 if bad else 0)
