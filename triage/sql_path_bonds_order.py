"""Side observation (CLEAN tree): relctx._plain_join iterates the *set*
`right_rvar.query.path_bonds`; PathId.__hash__ mixes in hash(self.__class__)
(address based) and str/enum hashes, so for a range var with >= 2 path bonds
the order of the ON conjuncts (and of the aliases allocated while building
them) differs from process to process.

Usage: python side_path_bonds_order.py <repo-root>   (run it several times and
compare the printed md5 of the SQL text)
"""
import sys, types, uuid

def install_stubs(root):
    sys.path.insert(0, root)
    class _Any(types.ModuleType):
        def __getattr__(self, name):
            if name.startswith('__'):
                raise AttributeError(name)
            t = type(name, (), {})
            setattr(self, name, t)
            return t
    for name in ['edb._edgeql_parser', 'edb._graphql_rewrite', 'parsing']:
        sys.modules[name] = _Any(name)
    qp = sys.modules['edb._edgeql_parser']
    for k in ['unreserved_keywords', 'future_reserved_keywords',
              'current_reserved_keywords', 'partial_reserved_keywords']:
        setattr(qp, k, frozenset())
    tu = types.ModuleType('edb.common.turbo_uuid')
    tu.UUID = uuid.UUID
    sys.modules['edb.common.turbo_uuid'] = tu
    import edb.common
    edb.common.turbo_uuid = tu

# side observation: _plain_join iterates the *set* path_bonds
install_stubs(sys.argv[1])
from edb.ir import ast as irast
from edb.schema import name as sn
from edb.pgsql import ast as pgast, codegen, params as pgparams
from edb.pgsql.compiler import context, relctx, pathctx

env = context.Environment(
    output_format=None, named_param_prefix=None,
    expected_cardinality_one=False, ignore_object_shapes=False,
    singleton_mode=False, is_explain=False, explicit_top_cast=None,
    query_params=[], type_rewrites={}, scope_tree_nodes={},
    backend_runtime_params=pgparams.get_default_runtime_params())
ctx = context.CompilerContextLevel(None, context.ContextSwitchMode.TRANSPARENT, env=env, scope_tree=irast.new_scope_tree())
ctx.rel = pgast.SelectStmt()
context.CompilerContext(initial=ctx)
def objtype(name, n):
    tr = irast.TypeRef(id=uuid.UUID(int=n), name_hint=sn.QualName('default', name))
    return tr, irast.PathId.from_typeref(tr)
def table_rvar(tr, pid, name, ctx):
    rel = pgast.Relation(name=name, schemaname='edgedbpub', path_id=pid, type_or_ptr_ref=tr)
    pathctx.put_path_bond(rel, pid)
    return relctx.rvar_for_rel(rel, typeref=tr, ctx=ctx)
q = ctx.rel
types = [objtype(n, i + 1) for i, n in enumerate('ABCD')]
for tr, p in types:
    relctx.include_rvar(q, table_rvar(tr, p, tr.name_hint.name, ctx), p, ctx=ctx)
with ctx.subrel() as sub:
    sq = sub.rel
    for tr, p in types:
        relctx.include_rvar(sq, table_rvar(tr, p, tr.name_hint.name, sub), p, ctx=sub)
        pathctx.put_path_bond(sq, p)
rc = relctx.rvar_for_rel(sq, lateral=True, ctx=ctx)
relctx.include_rvar(q, rc, types[0][1], ctx=ctx)
import hashlib
sql = codegen.generate_source(q)
print(hashlib.md5(sql.encode()).hexdigest(), sql[-260:])
