"""Real EdgeQL printer: ALTER CAST / DROP CAST / CREATE|DROP INDEX MATCH fuse
the last object keyword with what follows (`alter castfrom ...`,
`index match forstd::str`).  Triage only -- never used by a check.
usage: python ql_print_unnamed_object_separator.py [repo-root]; exit 1 when a
printed statement contains a fused keyword."""
import os, sys
sys.path.insert(0, os.path.dirname(os.path.abspath(__file__)))
import ql_printer
qlast, codegen = ql_printer.load(sys.argv[1] if len(sys.argv) > 1 else None)

def tn(m, n):
    return qlast.TypeName(maintype=qlast.ObjectRef(module=m, name=n))

nodes = [
    qlast.AlterCast(name=qlast.ObjectRef(module='__', name='cast'),
                    from_type=tn('std', 'str'), to_type=tn('std', 'int64'),
                    commands=[qlast.SetField(name='foo', value=qlast.Constant.string('x'))]),
    qlast.DropCast(name=qlast.ObjectRef(module='__', name='cast'),
                   from_type=tn('std', 'str'), to_type=tn('std', 'int64')),
    qlast.CreateIndexMatch(name=qlast.ObjectRef(module='fts', name='index'),
                           valid_type=tn('std', 'str')),
    qlast.DropIndexMatch(name=qlast.ObjectRef(module='fts', name='index'),
                         valid_type=tn('std', 'str')),
]
bad = 0
for n in nodes:
    txt = codegen.generate_source(n)
    fused = any(w in txt.lower() for w in ('castfrom', 'forstd'))
    print(('FUSED  ' if fused else 'ok     ') + txt.replace('\n', ' '))
    bad += fused
sys.exit(1 if bad else 0)
