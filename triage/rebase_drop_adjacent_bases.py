#!/venv/bin/python
"""Triage for C02.R5: RebaseInheritingObject._compute_new_bases removes from
the list it is iterating, so dropping two adjacent bases leaves one behind.

The real method body is lifted from edb/schema/inheriting.py with `ast` and
executed with duck-typed bases (objects with .name / get_name); nothing else
of the method is altered.  (Pointed out by a seed agent as an aside.)

exit 0: DROP EXTENDING A, B from [A, B, C] leaves [C]; exit 1 otherwise.
usage: rebase_drop_adjacent_bases.py [repo_root]
"""
import ast, sys, types

root = sys.argv[1] if len(sys.argv) > 1 else '/repo'
src = open(f'{root}/edb/schema/inheriting.py').read()
tree = ast.parse(src)
fn = None
for c in ast.walk(tree):
    if isinstance(c, ast.ClassDef) and c.name == 'RebaseInheritingObject':
        for f in c.body:
            if isinstance(f, ast.FunctionDef) and f.name == \
                    '_compute_new_bases':
                fn = f
fn.returns = None
for a in fn.args.args:
    a.annotation = None
mod = ast.Module(body=[fn], type_ignores=[])
ns = {'Optional': None, 'so': None, 'List': list}
exec(compile(ast.fix_missing_locations(mod), 'lifted', 'exec'), ns)


class B:
    def __init__(self, n):
        self.name = n

    def get_name(self, schema):
        return self.name

    def __repr__(self):
        return self.name


class Bases:
    def __init__(self, xs):
        self.xs = xs

    def objects(self, schema):
        return tuple(self.xs)


a, b, c = B('A'), B('B'), B('C')
selfobj = types.SimpleNamespace(
    get_schema_metaclass=lambda: types.SimpleNamespace(
        get_default_base_name=lambda: None),
    removed_bases=[B('A'), B('B')], added_bases=[],
    get_object=lambda *a_, **k: None)
out = ns['_compute_new_bases'](selfobj, None, None, Bases([a, b, c]))
print('bases [A, B, C], DROP EXTENDING A, B ->', out)
if [x.name for x in out] != ['C']:
    print('C02 VIOLATED: a dropped base is still there; the migration does '
          'not reach the target schema')
    sys.exit(1)
