"""Load edb/server/connpool/pool.py stand-alone (the package __init__ imports
the unbuilt Rust pool).  Triage only — never used by a check."""
import importlib.util, os, sys, types

def load(repo=None):
    repo = repo or os.environ.get('VERIF_REPO', '/repo')
    base = os.path.join(repo, 'edb/server/connpool')
    for name in ('edb', 'edb.server', 'edb.server.connpool'):
        if name not in sys.modules:
            m = types.ModuleType(name); m.__path__ = []
            sys.modules[name] = m
    out = {}
    for mod in ('config', 'rolavg', 'pool'):
        full = f'edb.server.connpool.{mod}'
        spec = importlib.util.spec_from_file_location(full, os.path.join(base, mod + '.py'))
        m = importlib.util.module_from_spec(spec)
        sys.modules[full] = m
        setattr(sys.modules['edb.server.connpool'], mod, m)
        spec.loader.exec_module(m)
        out[mod] = m
    return out['pool']
