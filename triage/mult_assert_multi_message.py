import sys
import types
import uuid
import importlib.abc
import importlib.machinery

ROOT = sys.argv[1] if len(sys.argv) > 1 else '/tmp/wt2_C06'


# --------------------------------------------------------------------------
# STUBS (not repository code): stand-ins for the three native / third-party
# modules that are not available in this environment.  Everything imported
# from `edb.*` below is the real repository code found under ROOT.
# --------------------------------------------------------------------------
def _install_stubs(root):
    sys.path.insert(0, root)
    m = types.ModuleType('edb._edgeql_parser')
    for a in ('unreserved_keywords', 'future_reserved_keywords',
              'current_reserved_keywords', 'partial_reserved_keywords'):
        setattr(m, a, frozenset())
    sys.modules['edb._edgeql_parser'] = m

    class _AutoMod(types.ModuleType):
        __path__ = []

        def __getattr__(self, name):
            if name.startswith('__'):
                raise AttributeError(name)
            cls = type(name, (), {})
            setattr(self, name, cls)
            return cls

    class _Finder(importlib.abc.MetaPathFinder, importlib.abc.Loader):
        def find_spec(self, fullname, path, target=None):
            if fullname == 'parsing' or fullname.startswith('parsing.'):
                return importlib.machinery.ModuleSpec(
                    fullname, self, is_package=True)
            return None

        def create_module(self, spec):
            return _AutoMod(spec.name)

        def exec_module(self, module):
            pass

    sys.meta_path.insert(0, _Finder())

    t = types.ModuleType('edb.common.turbo_uuid')

    class UUID(uuid.UUID):
        def __init__(self, v=None, **kw):
            if isinstance(v, uuid.UUID):
                super().__init__(int=v.int)
            elif isinstance(v, (bytes, bytearray)):
                super().__init__(bytes=bytes(v))
            elif isinstance(v, str):
                super().__init__(v)
            else:
                super().__init__(**kw)

    t.UUID = UUID
    sys.modules['edb.common.turbo_uuid'] = t


_install_stubs(ROOT)

from edb.ir import ast as irast  # noqa: E402
from edb.ir import pathid  # noqa: E402
from edb.ir import scopetree  # noqa: E402
from edb.schema import name as sn  # noqa: E402
from edb.schema import objects as s_obj  # noqa: E402
from edb.edgeql import ast as qlast  # noqa: E402
from edb.edgeql import qltypes  # noqa: E402
from edb.edgeql.compiler import inference  # noqa: E402
from edb.edgeql.compiler.inference import cardinality as inf_card  # noqa
from edb.edgeql.compiler.inference import multiplicity as inf_mult  # noqa


# --------------------------------------------------------------------------
# Hand-made IR (the EdgeQL parser and the std schema cannot be loaded here,
# so the IR that the compiler front-end would produce is built directly from
# the real edb.ir.ast node classes).
# --------------------------------------------------------------------------
_counter = [0]


def typeref(name):
    return irast.TypeRef(
        id=s_obj.get_known_type_id(name),
        name_hint=sn.name_from_string(name),
        is_scalar=True,
    )


INT = typeref('std::int64')
STR = typeref('std::str')
JSON = typeref('std::json')


def fresh_path(tr):
    _counter[0] += 1
    t = irast.TypeRef(
        id=uuid.uuid4(),
        name_hint=sn.QualName('__derived__', f'expr~{_counter[0]}'),
        is_scalar=tr.is_scalar,
        material_type=tr,
        is_view=True,
    )
    return pathid.PathId.from_typeref(t, typename=t.name_hint)


def mkset(expr, tr=None, *, path_id=None, **kw):
    tr = tr or expr.typeref
    return irast.Set(
        path_id=path_id or fresh_path(tr), typeref=tr, expr=expr, **kw)


def intconst(v):
    return irast.IntegerConstant(value=str(v), typeref=INT)


def strconst(v):
    return irast.StringConstant(value=str(v), typeref=STR)


def constset(tr, *elements):
    return mkset(irast.ConstantSet(elements=tuple(elements), typeref=tr))


class Env:
    """Minimal stand-in for edb.edgeql.compiler.context.Environment:
    just the attributes the inference code reads for schema-less IR."""

    def __init__(self):
        self.scope_tree_nodes = {}
        self.singletons = []
        self.set_types = {}
        self.warnings = []
        self.schema = None
        self.pointer_specified_info = {}
        self.pointer_derivation_map = {}


def fence(parent=None, *, env=None):
    _counter[0] += 1
    node = scopetree.ScopeTreeNode(fenced=True, unique_id=_counter[0])
    if parent is not None:
        parent.attach_child(node)
    if env is not None:
        env.scope_tree_nodes[node.unique_id] = node
    return node


def infer(ir, scope, env):
    ctx = inference.make_ctx(env)
    card = inference.infer_cardinality(ir, scope_tree=scope, ctx=ctx)
    mult = inference.infer_multiplicity(ir, scope_tree=scope, ctx=ctx)
    return card, mult.own


LOWER = {'AT_MOST_ONE': 0, 'ONE': 1, 'MANY': 0, 'AT_LEAST_ONE': 1}
UPPER = {'AT_MOST_ONE': 1, 'ONE': 1, 'MANY': None, 'AT_LEAST_ONE': None}


def contradicts(card, result):
    """Does an actual result (a python list) contradict reported *card*?"""
    n = len(result)
    if n < LOWER[str(card)]:
        return f'{n} elements, but reported lower bound is 1'
    up = UPPER[str(card)]
    if up is not None and n > up:
        return f'{n} elements, but reported upper bound is {up}'
    return None


failures = []


def check(label, card, mult, result):
    why = contradicts(card, result)
    dup = len(set(result)) != len(result)
    if why is None and dup and str(mult) == 'UNIQUE':
        why = 'result has duplicates but is classified UNIQUE'
    status = 'OK ' if why is None else 'BAD'
    print(f'{status} {label}\n      reported: {card}/{mult}; '
          f'actual result: {result!r}'
          + (f'\n      -> {why}' if why else ''))
    if why is not None:
        failures.append(label)


def finish():
    if failures:
        print(f'\nFAIL: property C06 violated for: {failures}')
        sys.exit(1)
    print('\nPASS: reported cardinality/multiplicity bound the actual results')
    sys.exit(0)


# ==========================================================================
# Demo 2: std::assert_exists / std::assert_distinct with a multi-valued
# `message` argument.
#
#   CREATE FUNCTION std::assert_exists(
#       input: SET OF anytype,
#       NAMED ONLY message: OPTIONAL str = <str>{},
#   ) -> SET OF anytype { SET preserves_upper_cardinality := true; ... }
#
# `message` is OPTIONAL, not SET OF, so - as for every non-aggregate
# parameter - the call is evaluated once per element of `message`
# (EdgeQL element-wise function application).  With a singleton `input` and
# a two-element `message` the call therefore yields two elements.
# ==========================================================================
def assert_call(name, input_set, message_set, *,
                preserves_optionality, preserves_upper_cardinality):
    return mkset(irast.FunctionCall(
        func_shortname=sn.QualName('std', name),
        func_polymorphic=True,
        func_sql_function=None,
        force_return_cast=False,
        # NAMED ONLY arguments come first in the bound argument map (this
        # is also what multiplicity.__infer_func_call relies on when it
        # picks args_mult[1] as the `input` of assert_exists).
        args={
            'message': irast.CallArg(
                expr=message_set,
                param_typemod=qltypes.TypeModifier.OptionalType),
            0: irast.CallArg(
                expr=input_set,
                param_typemod=qltypes.TypeModifier.SetOfType),
        },
        typeref=INT,
        typemod=qltypes.TypeModifier.SetOfType,
        tuple_path_ids=[],
        volatility=qltypes.Volatility.Immutable,
        preserves_optionality=preserves_optionality,
        preserves_upper_cardinality=preserves_upper_cardinality,
    ), INT)


def model_elementwise_call(input_values, message_values):
    # Reference semantics: SET OF argument is passed whole, the OPTIONAL
    # argument is iterated (once with "empty" if it is the empty set);
    # assert_exists / assert_distinct return `input` when the assertion
    # holds.
    out = []
    for _msg in (message_values or [None]):
        out.extend(input_values)
    return out


FUNCS = [
    ('assert_exists', dict(preserves_optionality=False,
                           preserves_upper_cardinality=True)),
    ('assert_distinct', dict(preserves_optionality=True,
                             preserves_upper_cardinality=True)),
]

for fname, flags in FUNCS:
    # ordinary use: single message
    env = Env()
    root = fence(env=env)
    ir = assert_call(
        fname, constset(INT, intconst(1)), constset(STR, strconst('m')),
        **flags)
    card, mult = infer(ir, root, env)
    check(f"{fname}(1, message := 'm')", card, mult,
          model_elementwise_call([1], ['m']))

    # multi input, single message
    env = Env()
    root = fence(env=env)
    ir = assert_call(
        fname, constset(INT, intconst(1), intconst(2)),
        constset(STR, strconst('m')), **flags)
    card, mult = infer(ir, root, env)
    check(f"{fname}({{1, 2}}, message := 'm')", card, mult,
          model_elementwise_call([1, 2], ['m']))

    # single input, TWO messages
    env = Env()
    root = fence(env=env)
    ir = assert_call(
        fname, constset(INT, intconst(1)),
        constset(STR, strconst('a'), strconst('b')), **flags)
    card, mult = infer(ir, root, env)
    # Only the cardinality clause is checked for this case (the
    # multiplicity of these assert_* calls is taken from `input` alone by
    # the unmodified code as well, see notes.md).
    check(f"{fname}(1, message := {{'a', 'b'}})", card, mult,
          model_elementwise_call([1], ['a', 'b']))

finish()
