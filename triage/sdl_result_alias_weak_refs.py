#!/usr/bin/env python
"""Triage (never used by a check): the tracer context built for a statement
with a result alias (SELECT x := ..., GROUP x := ...) shared `refs` with its
parent but not `weak_refs`, so the "same pointer name" weak dependencies found
in its FILTER / ORDER BY were lost and a computable could be created before a
property it reads through assert_single(...).name.

Runs the real edb.edgeql.declarative.sdl_to_ddl on hand-built SDL ASTs
(harness adapted from a seed agent's demo; only the native parser, `parsing`
and turbo_uuid are stubbed).

usage: sdl_result_alias_weak_refs.py [repo-root]   exit 0 = order-independent
"""
import itertools
import sys, types, uuid


def install_stubs(root):
    sys.path.insert(0, root)

    class _Stub(types.ModuleType):
        def __getattr__(self, name):
            if name.startswith('__'):
                raise AttributeError(name)
            v = type(name, (), {})
            setattr(self, name, v)
            return v

    m = _Stub('edb._edgeql_parser')
    for k in ('unreserved_keywords', 'future_reserved_keywords',
              'current_reserved_keywords', 'partial_reserved_keywords'):
        setattr(m, k, frozenset())
    sys.modules['edb._edgeql_parser'] = m
    sys.modules['parsing'] = _Stub('parsing')
    import edb
    edb._edgeql_parser = m

    t = types.ModuleType('edb.common.turbo_uuid')

    class UUID(uuid.UUID):
        def __init__(self, data=None, **kw):
            if isinstance(data, (bytes, bytearray)):
                super().__init__(bytes=bytes(data))
            elif isinstance(data, uuid.UUID):
                super().__init__(bytes=data.bytes)
            else:
                super().__init__(data, **kw)

    t.UUID = UUID
    sys.modules['edb.common.turbo_uuid'] = t
    import edb.common
    edb.common.turbo_uuid = t


install_stubs(sys.argv[1] if len(sys.argv) > 1 else '/repo')

from edb import errors  # noqa
from edb.edgeql import ast as qlast  # noqa
from edb.edgeql import qltypes  # noqa
from edb.edgeql import declarative as s_decl  # noqa
from edb.schema import name as sn  # noqa

_MISSING = object()


class FakeStdObj:
    """Stand-in for an object of the standard library schema."""

    def __init__(self, name):
        self.name = name

    def get_name(self, schema):
        return self.name

    def is_scalar(self):
        return True

    def is_object_type(self):
        return False

    def get_verbosename(self, schema):
        return str(self.name)


class FakeSchema:
    """Just enough of s_schema.Schema for sdl_to_ddl(): an 'std' library
    holding a few scalars and nothing else."""

    STD = {'std::str', 'std::int64', 'std::bool', 'std::float64'}

    def get_global(self, cls, name, default=_MISSING):
        return FakeStdObj(sn.QualName('std', str(name)))

    def get(self, name, default=_MISSING, *, type=None, sourcectx=None, **kw):
        if str(name) in self.STD:
            return FakeStdObj(name)
        if default is not _MISSING:
            return default
        raise errors.InvalidReferenceError(f'{name} does not exist')


def ref(name, module=None):
    return qlast.ObjectRef(name=name, module=module)


def tname(name, module=None):
    return qlast.TypeName(maintype=ref(name, module))


def otype(name, *members, bases=()):
    return qlast.CreateObjectType(
        name=ref(name), bases=[tname(b) for b in bases],
        commands=list(members))


def prop(name, target):
    if isinstance(target, str):
        target = tname(target)
    return qlast.CreateConcreteProperty(
        name=ref(name), target=target, bases=[],
        cardinality=qltypes.SchemaCardinality.One)


def link(name, target):
    if isinstance(target, str):
        target = tname(target)
    return qlast.CreateConcreteLink(
        name=ref(name), target=target, bases=[],
        cardinality=qltypes.SchemaCardinality.One)


def ptr(name):
    return qlast.Ptr(name=name)


def partial(*names):
    return qlast.Path(steps=[ptr(n) for n in names], partial=True)


def describe(cmd, module=None):
    """'default::T' for a CREATE, 'default::T@p' for ALTER T {CREATE p}."""
    if cmd.aliases:
        module = cmd.aliases[0].module
    if isinstance(cmd, qlast.CreateModule):
        return f'module {cmd.name.name}'
    name = cmd.name.name
    if cmd.name.module:
        module = cmd.name.module
    if isinstance(cmd, qlast.CreateFunction):
        ps = ','.join(p.type.maintype.name for p in cmd.params)
        name = f'{name}({ps})'
    here = f'{module}::{name}'
    if isinstance(cmd, qlast.AlterObject):
        subs = [c for c in cmd.commands if isinstance(c, qlast.ObjectDDL)]
        assert len(subs) == 1, cmd
        return here + '@' + describe(subs[0], module).split('::', 1)[1]
    return here


def linearize(documents):
    ddl = s_decl.sdl_to_ddl(FakeSchema(), documents)
    return [describe(c) for c in ddl]


def check_all(variants, must_precede):
    """variants: {label: documents}.  Every variant is the same SDL in a
    different order; each must linearize, emit the same set of commands,
    and respect every (before, after) pair of `must_precede`."""
    failures = []
    seen = None
    for label, documents in variants.items():
        try:
            order = linearize(documents)
        except Exception as e:  # noqa
            failures.append(f'{label}: rejected: {type(e).__name__}: {e}')
            continue
        if seen is None:
            seen = (label, sorted(order))
        elif sorted(order) != seen[1]:
            failures.append(
                f'{label}: emits a different set of commands than '
                f'{seen[0]}: {sorted(order)} vs {seen[1]}')
        for before, after in must_precede:
            if before not in order or after not in order:
                failures.append(f'{label}: {before} or {after} not emitted')
            elif order.index(before) > order.index(after):
                failures.append(
                    f'{label}: {after} is created BEFORE {before}, which it '
                    f'refers to; DDL order = {order}')
    if failures:
        print('C11 VIOLATED: the result depends on declaration order')
        for f in failures:
            print('  -', f)
        sys.exit(1)
    print(f'ok: {len(variants)} orderings all linearize consistently')
    sys.exit(0)



# module default:
#   type A { property q := (select O := Other
#                           filter assert_single(O.owner).name = 'x') }
#   type Other { link owner -> C }
#   type C { property name -> str }

def decls():
    q = prop('q', qlast.SelectQuery(
        result_alias='O',
        result=qlast.Path(steps=[ref('Other')]),
        where=qlast.BinOp(
            left=qlast.Path(steps=[
                qlast.FunctionCall(func='assert_single', args=[
                    qlast.Path(steps=[ref('O'), ptr('owner')])]),
                ptr('name')]),
            op='=',
            right=qlast.Constant.string('x'))))
    return {
        'A': otype('A', q),
        'Other': otype('Other', link('owner', 'C')),
        'C': otype('C', prop('name', 'str')),
    }


variants = {}
for top in itertools.permutations(['A', 'Other', 'C']):
    d = decls()
    variants[f'top={top}'] = {'default': [d[n] for n in top]}

check_all(variants, [
    ('default::C@name', 'default::A@q'),
    ('default::Other@owner', 'default::A@q'),
])
