"""C01.R4 / C18.R1-R2: what the real printer emits for string constants the
parser can produce but whose printed form the lexer rejects."""
import sys, os
sys.path.insert(0, os.path.dirname(__file__))
import ql_printer
qlast, codegen = ql_printer.load()
bad = 0
for label, val in (('C1 control U+0085', 'a\x85b'), ('bidi U+202A', 'a‪b'),
                   ('bidi U+2066 with newline', 'a⁦\nb')):
    txt = codegen.generate_source(qlast.Constant.string(val))
    raw_bidi = any(0x202a <= ord(c) <= 0x202e or 0x2066 <= ord(c) <= 0x2069 for c in txt)
    import re
    hi_x = re.findall(r'\\x[89a-fA-F][0-9a-fA-F]', txt)
    print(f'{label}: printed {txt!a}  raw-bidi={raw_bidi} high-\\x={hi_x}')
    if raw_bidi or hi_x:
        bad += 1
print('REJECTED-BY-LEXER' if bad else 'OK')
sys.exit(1 if bad else 0)
