#!/venv/bin/python
"""Triage for C01 (asides of a seed agent, confirmed on the real printer):

 1. CREATE DATABASE x FROM tpl  (grammar: reduce_CREATE_DATABASE_from_template
    builds CreateDatabase(flavor='DATABASE', template=tpl)) is printed without
    the FROM clause.
 2. DETACHED (Foo.bar) is printed `DETACHED Foo.bar`; P_DETACHED binds
    tighter than P_DOT is listed... in precedence.py P_DOT comes before
    P_DETACHED, i.e. DETACHED binds tighter, so the text is
    (DETACHED Foo).bar.

exit 0 when both texts keep the structure.
"""
import os, sys
sys.path.insert(0, os.path.dirname(os.path.abspath(__file__)))
import ql_printer
repo = sys.argv[1] if len(sys.argv) > 1 else '/repo'
qlast, codegen = ql_printer.load(repo)
from edb.edgeql import qltypes
bad = 0
n = qlast.CreateDatabase(
    name=qlast.ObjectRef(name='x'), commands=[],
    branch_type=qlast.BranchType.DATA,
    template=qlast.ObjectRef(name='tpl'), flavor='DATABASE')
txt = codegen.generate_source(n)
print('CREATE DATABASE x FROM tpl ->', txt)
if 'tpl' not in txt:
    print('  LOST: the template is not printed')
    bad += 1
p = qlast.Path(steps=[qlast.ObjectRef(name='Foo'), qlast.Ptr(name='bar')])
d = qlast.DetachedExpr(expr=p)
txt = codegen.generate_source(d)
print('DetachedExpr(Path(Foo.bar)) ->', txt)
if txt.replace(' ', '').upper() == 'DETACHEDFOO.BAR':
    print('  REGROUPS: DETACHED binds tighter than `.`: this is '
          '(DETACHED Foo).bar')
    bad += 1
sys.exit(1 if bad else 0)
