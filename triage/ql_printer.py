"""Import the real EdgeQL AST + printer with the native parser stubbed.
Triage only — never used by a check."""
import os, re, sys, types

def load(repo=None):
    repo = repo or os.environ.get('VERIF_REPO', '/repo')
    if repo not in sys.path:
        sys.path.insert(0, repo)
    kw = open(os.path.join(repo, 'edb/edgeql-parser/src/keywords.rs')).read()
    def kwset(name):
        m = re.search(name + r'[^=]*=\s*phf_set!\s*\((.*?)\);', kw, re.S) or \
            re.search(name + r'[^=]*=\s*phf_set!\s*\{(.*?)\};', kw, re.S)
        return frozenset(re.findall(r'"([^"]+)"', m.group(1))) if m else frozenset()
    stub = types.ModuleType('edb._edgeql_parser')
    stub.unreserved_keywords = kwset('UNRESERVED_KEYWORDS')
    stub.partial_reserved_keywords = kwset('PARTIAL_RESERVED_KEYWORDS')
    stub.future_reserved_keywords = kwset('FUTURE_RESERVED_KEYWORDS')
    stub.current_reserved_keywords = kwset('CURRENT_RESERVED_KEYWORDS')
    def _ga(name):
        return type(name, (), {})
    stub.__getattr__ = _ga
    sys.modules['edb._edgeql_parser'] = stub
    class _P(types.ModuleType):
        def __getattr__(self, name):
            if name.startswith('__'):
                raise AttributeError(name)
            return type(name, (), {'__init__': lambda self, *a, **k: None})
    sys.modules['parsing'] = _P('parsing')
    from edb.edgeql import ast as qlast, codegen
    return qlast, codegen
