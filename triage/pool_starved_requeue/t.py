import asyncio, importlib, os, sys, time, types
ROOT = sys.argv[1] if len(sys.argv) > 1 else '/repo'
RUN_FOR = float(sys.argv[2]) if len(sys.argv) > 2 else 10.0
def load_pool(root):
    for name in ('edb', 'edb.server', 'edb.server.connpool'):
        m = types.ModuleType(name); m.__path__ = [os.path.join(root, *name.split('.'))]; sys.modules[name] = m
    return importlib.import_module('edb.server.connpool.pool')
poolmod = load_pool(ROOT)
HOLD = 0.02
async def connect(dbname):
    await asyncio.sleep(0.001); return object()
async def disconnect(conn):
    await asyncio.sleep(0.001)
async def main():
    pool = poolmod.Pool(connect=connect, disconnect=disconnect, max_capacity=1)
    served = {'A': 0, 'B': 0, 'C': 0}
    stop = False
    async def looper(db):
        while not stop:
            conn = await pool.acquire(db)
            served[db] += 1
            await asyncio.sleep(HOLD)
            pool.release(db, conn)
            await asyncio.sleep(0)
    done_at = {}
    async def oneshot(i):
        t0 = time.monotonic()
        conn = await pool.acquire('B')
        served['B'] += 1
        done_at[i] = round(time.monotonic() - t0, 3)
        await asyncio.sleep(HOLD)
        pool.release('B', conn)
    tasks = [asyncio.create_task(looper('A')), asyncio.create_task(looper('C'))]
    await asyncio.sleep(0.1)
    bs = [asyncio.create_task(oneshot(i)) for i in range(3)]
    done, pending = await asyncio.wait(bs, timeout=RUN_FOR)
    stop = True
    print('served', served, 'B one-shot completion times', done_at, 'pending B requests', len(pending))
    for t in tasks + list(pending): t.cancel()
    await asyncio.gather(*tasks, *pending, return_exceptions=True)
    return 1 if pending else 0
sys.exit(asyncio.run(main()))
