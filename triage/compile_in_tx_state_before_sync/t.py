"""Triage: Compiler.compile_in_tx applies the request's module aliases / session config
BEFORE it re-synchronises to the server's transaction id; the re-sync to a savepoint then replaces the whole state.
Harness taken from seeded/C09-f2/demo.py (real Compiler.compile / compile_in_tx / dbstate; parser, rpc, SQL half stubbed).
ROLLBACK TO SAVEPOINT + re-synchronisation must not bring it back.
Real code: Compiler.compile / compile_in_tx, _compile_ql_transaction,
_compile_ql_sess_state, dbstate.Transaction / CompilerConnectionState (sync_tx,
sync_to_savepoint).  Stubbed: parser, rpc request class, SQL half of DDL.
usage: demo.py <repo-root>
"""
import sys, os, re, types, uuid
ROOT = os.path.abspath(sys.argv[1])
sys.path.insert(0, ROOT)
class UUID(uuid.UUID):
    def __init__(self, v=None, **k):
        if isinstance(v, uuid.UUID): super().__init__(int=v.int)
        elif isinstance(v, (bytes, bytearray)): super().__init__(bytes=bytes(v))
        elif v is None: super().__init__(**k)
        else: super().__init__(v)
    def __reduce__(self): return (UUID, (self.bytes,))
def _install_stubs():
    class _Any:
        def __init__(self, *a, **k): pass
        def __init_subclass__(cls, **k): pass
    p = types.ModuleType('parsing')
    for n in ('Token', 'Nonterm', 'Precedence', 'Spec', 'Lr'):
        setattr(p, n, type(n, (_Any,), {}))
    sys.modules['parsing'] = p
    kw = open(os.path.join(ROOT, 'edb/edgeql-parser/src/keywords.rs')).read()
    ep = types.ModuleType('edb._edgeql_parser')
    for rs, py in (('UNRESERVED_KEYWORDS', 'unreserved_keywords'),
                   ('FUTURE_RESERVED_KEYWORDS', 'future_reserved_keywords'),
                   ('CURRENT_RESERVED_KEYWORDS', 'current_reserved_keywords'),
                   ('PARTIAL_RESERVED_KEYWORDS', 'partial_reserved_keywords')):
        m = re.search(rs + r'[^=]*=\s*(?:phf_set!\s*\{|&\[)(.*?)(?:\}|\]);', kw, re.S)
        setattr(ep, py, frozenset(re.findall(r'"([^"]+)"', m.group(1)) if m else ()))
    for n in ('ParserResult', 'Hasher', 'SourcePoint', 'Entry', 'OpaqueToken',
              'CSTNode', 'Production', 'Terminal'):
        setattr(ep, n, type(n, (_Any,), {}))
    ep.SyntaxError = type('SyntaxError', (Exception,), {})
    def _no(*a, **k): raise RuntimeError('native parser not available')
    for n in ('tokenize', 'parse', 'preload_spec', 'save_spec', 'normalize',
              'unpickle_token', 'unpack', 'suggest_next_keywords'):
        setattr(ep, n, _no)
    sys.modules['edb._edgeql_parser'] = ep
    tu = types.ModuleType('edb.common.turbo_uuid')
    tu.UUID = UUID
    sys.modules['edb.common.turbo_uuid'] = tu
    pp = types.ModuleType('edb.pgsql.parser.parser')
    for n in ('Source', 'NormalizedSource'):
        setattr(pp, n, type(n, (_Any,), {}))
    pp.deserialize = _no; pp.pg_parse = _no
    sys.modules['edb.pgsql.parser.parser'] = pp
_install_stubs()
# ---- second stage: rpc stub, imports, tiny compiler state ----
def _install_rpc():
    r = types.ModuleType('edb.server.compiler.rpc')
    class SQLParamsSource: pass
    class CompilationRequest:
        def __init__(self, **kw): self.__dict__.update(kw)
        def get_cache_key(self): return None
    r.SQLParamsSource = SQLParamsSource; r.CompilationRequest = CompilationRequest
    sys.modules['edb.server.compiler.rpc'] = r
_install_rpc()
import pickle, immutables
from edb import errors, edgeql
from edb.edgeql import ast as qlast
from edb.schema import schema as s_schema, ddl as s_ddl, modules as s_mod
from edb.server import config, defines
from edb.server.compiler import compiler as C, dbstate, ddl as cddl, enums
import edb.server.compiler.rpc as rpc
assert C.__file__.startswith(ROOT), C.__file__
SRCS = {}
class Src:
    """Stand-in for edgeql.Source: carries a pre-built AST list."""
    def __init__(self, text, stmts): self._t, self.stmts = text, stmts; SRCS[text] = self
    def text(self): return self._t
edgeql.parse_block = lambda src, *a, **k: list(src.stmts)
edgeql.Source.from_string = staticmethod(lambda text: SRCS[text])
STD = s_schema.EMPTY_SCHEMA
CSTATE = C.CompilerState(
    std_schema=STD, refl_schema=STD, schema_class_layout={}, config_spec=config.FlatSpec(), local_intro_query=None,
    backend_runtime_params=C.pg_params.get_default_runtime_params(), global_intro_query=None)
class _NoSerializer:      # needs std::str etc.; irrelevant to this property
    def make(self, *a, **k): return None
CSTATE.__dict__['state_serializer_factory'] = _NoSerializer()
COMPILER = C.Compiler(CSTATE)
def fake_ddl(ctx, stmt, source=None):
    """Schema part of compile_and_apply_ddl_stmt (real schema machinery,
    real Transaction.update_schema); the SQL part needs a std schema."""
    tx = ctx.state.current_tx()
    schema = tx.get_schema(ctx.compiler_state.std_schema)
    new_schema, _ = s_ddl.delta_and_schema_from_ddl(
        stmt, schema=schema, modaliases=tx.get_modaliases(), stdmode=True)
    tx.update_schema(new_schema)
    return dbstate.DDLQuery(
        sql=b'-- ddl', is_transactional=True, user_schema=tx.get_user_schema_if_updated(),
        global_schema=tx.get_global_schema_if_updated(), cached_reflection=None, feature_used_metrics=None)
cddl.compile_and_apply_ddl_stmt = fake_ddl
C._extract_extensions = lambda ctx, us: ([], [])
C._extract_roles = lambda gs: immutables.Map()
C._get_schema_version = lambda us: None
C.ddl.produce_feature_used_metrics = lambda *a, **k: None
from edb.ir import statypes
_orig_cfg = C._get_config_val
def _cfg(ctx, name):   # the config spec comes from the std schema; supply defaults
    if name == 'default_transaction_isolation':
        return statypes.TransactionIsolation(statypes.TransactionIsolationEnum.Serializable)
    if name == 'default_transaction_access_mode':
        return statypes.TransactionAccessMode(statypes.TransactionAccessModeEnum.ReadWrite)
    return _orig_cfg(ctx, name)
C._get_config_val = _cfg
# ---- third stage: a model of the server side (dbview) driving the real compiler ----
EMPTY = immutables.Map()
def _req(text, stmts, aliases, config):
    return rpc.CompilationRequest(
        source=Src(text, stmts), protocol_version=defines.CURRENT_PROTOCOL, input_language=enums.InputLanguage.EDGEQL,
        output_format=enums.OutputFormat.BINARY, input_format=enums.InputFormat.BINARY, expect_one=False,
        implicit_limit=0, inline_typeids=False, inline_typenames=False, inline_objectids=True,
        modaliases=aliases, session_config=config, role_name='admin', branch_name='main')
BASE_SCHEMA = s_schema.EMPTY_SCHEMA
class Conn:
    """What DatabaseConnectionView keeps: txid, savepoints, aliases, state."""
    def __init__(self):
        self.db_schema = BASE_SCHEMA
        self.aliases, self.tx_aliases, self.config = C.DEFAULT_MODULE_ALIASES_MAP, None, EMPTY  # committed / in-tx
        self.in_tx = False; self.txid = None; self.state = None
        self.sps = []; self.tx_error = False; self.root = None
    def cur_aliases(self): return self.tx_aliases if self.in_tx else self.aliases
    def _compile(self, text, stmts, state_bytes=None):
        req = _req(text, stmts, self.cur_aliases(), self.config)
        if self.in_tx:
            st = pickle.loads(state_bytes or self.state)
            st.set_root_user_schema(self.root)
            return COMPILER.compile_in_tx(state=st, txid=self.txid, request=req, expect_rollback=self.tx_error)
        return COMPILER.compile(user_schema=self.db_schema, global_schema=s_schema.EMPTY_SCHEMA, reflection_cache=EMPTY,
                                database_config=EMPTY, system_config=EMPTY, request=req)
    def run(self, text, *stmts, backend_fails=False):
        try:
            ug, st = self._compile(text, stmts)
        except errors.EdgeDBError as e:
            if self.in_tx: self.tx_error = True
            return e
        if self.in_tx or st is not None:
            self.state = st if isinstance(st, bytes) else pickle.dumps(st, -1)
        for u in ug:
            if self.tx_error and not (u.tx_rollback or u.tx_savepoint_rollback):
                return errors.TransactionError('current transaction is aborted')
            if u.tx_id is not None:
                self.txid = u.tx_id; self.in_tx = True
                self.tx_aliases = self.aliases; self.root = self.db_schema
            if backend_fails:
                if self.in_tx: self.tx_error = True
                return errors.ExecutionError('backend error')
            if u.tx_savepoint_rollback:
                self.tx_error = False
                while self.sps and self.sps[-1][0] != u.sp_name: self.sps.pop()
                _, self.txid, (self.tx_aliases, self.config) = self.sps[-1]
            if u.tx_savepoint_declare:
                self.sps.append((u.sp_name, u.sp_id, (self.tx_aliases, self.config)))
            if u.modaliases is not None:
                if self.in_tx: self.tx_aliases = u.modaliases
                else: self.aliases = u.modaliases
            if not self.in_tx and u.user_schema is not None:
                self.db_schema = pickle.loads(u.user_schema)
            if u.tx_commit:
                self.aliases = self.tx_aliases
                if u.user_schema is not None:
                    self.db_schema = pickle.loads(u.user_schema)
            if u.tx_commit or u.tx_rollback:
                self.in_tx = False; self.txid = None; self.state = None
                self.sps = []; self.tx_error = False; self.tx_aliases = None
        return None
    def sees_module(self, name):
        """Would the NEXT statement, compiled the way the server would
        compile it now, resolve module `name`?  (compiled on a copy)"""
        stmt = qlast.SessionSetAliasDecl(decl=qlast.ModuleAliasDecl(module=name, alias='probe'))
        try:
            Conn._compile(self, f'set alias probe as module {name}', [stmt])
            return True
        except errors.UnknownModuleError:
            return False
def START(): return ('start transaction', qlast.StartTransaction())
def ROLLBACK(): return ('rollback', qlast.RollbackTransaction())
def SP(n): return (f'declare savepoint {n}', qlast.DeclareSavepoint(name=n))
def REL(n): return (f'release savepoint {n}', qlast.ReleaseSavepoint(name=n))
def RBTO(n): return (f'rollback to savepoint {n}', qlast.RollbackToSavepoint(name=n))
def MKMOD(n): return (f'create module {n}', qlast.CreateModule(name=qlast.ObjectRef(name=n)))
def ALIAS(a, n): return (f'set alias {a} as module {n}', qlast.SessionSetAliasDecl(decl=qlast.ModuleAliasDecl(module=n, alias=a)))
_c0 = Conn(); _c0.run(*MKMOD('default')); BASE_SCHEMA = _c0.db_schema
FAILS = []
def check(what, got, want):
    ok = got == want
    print(('ok   ' if ok else 'FAIL ') + f'{what}: got {got!r}, expected {want!r}')
    if not ok: FAILS.append(what)
def step(c, cmd, **kw):
    r = c.run(*cmd, **kw)
    print(f'   > {cmd[0]}' + (f'   [{type(r).__name__}: {r}]' if r else ''))
    return r
def finish():
    if FAILS:
        print(f'\nPROPERTY VIOLATED ({len(FAILS)} check(s) failed)'); sys.exit(1)
    print('\nall checks passed'); sys.exit(0)

_c1 = Conn(); _c1.db_schema = BASE_SCHEMA; _c1.run(*MKMOD('m0')); BASE_SCHEMA = _c1.db_schema
def aliases_used(c):
    """the aliases the compiler ended up with for the statement just compiled"""
    return dict(pickle.loads(c.state).current_tx().get_modaliases())
def scenario(rollback_to):
    c = Conn()
    step(c, START())
    step(c, SP('s'))
    if rollback_to:
        step(c, RBTO('s'))       # server: txid := id of s; the compiler re-syncs on the next statement
    # the client sends its next statement with a changed session state
    # (default module m0), as `with_default_module('m0')` does: dbview decodes
    # it into the in-transaction aliases that go into the request
    c.tx_aliases = c.tx_aliases.set(None, 'm0')
    r = step(c, SP('t'))
    return r, aliases_used(c)
print('--- control: no ROLLBACK TO before the statement')
r, a = scenario(False)
check('control: statement compiled with the aliases of its request', a.get(None), 'm0')
print('--- same request right after ROLLBACK TO SAVEPOINT s')
r, a = scenario(True)
check('after ROLLBACK TO: statement compiled with the aliases of its request', a.get(None), 'm0')
finish()
