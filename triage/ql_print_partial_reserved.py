"""Real EdgeQL printer: a name spelt like a partial-reserved keyword (union,
except, intersect) is printed bare.  The lexer makes a keyword token of it
and the grammar's `Identifier` takes IDENT or an unreserved keyword only
(`PtrIdentifier` alone adds the partial-reserved ones), so as a type, alias
or function name the printed text does not parse back.  Triage only.
usage: python ql_print_partial_reserved.py [repo-root]; exit 1 when bare."""
import os, sys
sys.path.insert(0, os.path.dirname(os.path.abspath(__file__)))
import ql_printer
qlast, codegen = ql_printer.load(sys.argv[1] if len(sys.argv) > 1 else None)
from edb.edgeql import quote
bad = 0
for w in ('union', 'Except', 'INTERSECT'):
    q = quote.quote_ident(w)
    t1 = codegen.generate_source(qlast.CreateObjectType(
        name=qlast.ObjectRef(name=w)))
    t2 = codegen.generate_source(qlast.SelectQuery(
        result=qlast.Path(steps=[qlast.ObjectRef(name='Foo')]),
        result_alias=w))
    bare = not q.startswith('`')
    print(('BARE   ' if bare else 'ok     ') + f'quote_ident({w!r}) = {q} | {t1} | {t2}')
    bad += bare
sys.exit(1 if bad else 0)
