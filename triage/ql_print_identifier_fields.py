"""Triage (never used by a check): fields that hold the text of an identifier
token were written raw by the EdgeQL printer, and RESET SCHEMA TO formatted the
ObjectRef *object* into the keyword text.  Real printer, hand-built ASTs.

usage: ql_print_identifier_fields.py [repo-root]    exit 0 = all printed right
"""
import sys
sys.path.insert(0, __file__.rsplit('/', 1)[0])
import ql_printer
qlast, codegen = ql_printer.load(sys.argv[1] if len(sys.argv) > 1 else None)
gen = codegen.generate_source
cases = [
    (qlast.DeclareSavepoint(name='my sp'), 'declare savepoint `my sp`'),
    (qlast.RollbackToSavepoint(name='select'),
     'rollback to savepoint `select`'),
    (qlast.ReleaseSavepoint(name='Before Import'),
     'release savepoint `Before Import`'),
    (qlast.DeclareSavepoint(name='plain_1'), 'declare savepoint plain_1'),
    (qlast.SessionResetAliasDecl(alias='my alias'),
     'reset alias `my alias`'),
    (qlast.SelectQuery(result_alias='my alias', result=qlast.Path(
        steps=[qlast.ObjectRef(name='Foo')])), 'select `my alias` := Foo'),
    (qlast.ResetSchema(target=qlast.ObjectRef(name='initial')),
     'reset schema to initial'),
    (qlast.ResetSchema(target=qlast.ObjectRef(name='m1abc')),
     'reset schema to m1abc'),
]
bad = 0
for node, want in cases:
    got = ' '.join(gen(node).split())
    ok = got.lower() == want.lower() and (
        '`' not in want or got[got.index('`'):] == want[want.index('`'):])
    print(('ok  ' if ok else 'BAD ') + f'{type(node).__name__}: {got!r}'
          + ('' if ok else f'   expected {want!r}'))
    bad += not ok
sys.exit(1 if bad else 0)
