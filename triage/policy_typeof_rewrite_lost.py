#!/venv/bin/python
"""Triage for C07.R7: a policy whose body contains `typeof` loses the
rewrite of its own type.

Real code: edb.edgeql.compiler.policies.try_type_rewrite and
edb.edgeql.compiler.typegen._ql_typeexpr_get_types (imported from the repo,
unmodified).  Stubbed: the three native modules that are not built here, and
the collaborators between the two functions -- the policy list, class_set,
the WHERE-clause compiler and `dispatch.compile` -- because the EdgeQL parser
and the std schema are unavailable.  The stub for get_rewrite_filter does the
one thing compiling `... typeof X ...` does on the real path
(compile_pol -> dispatch.compile -> typegen.ql_typeexpr_to_type ->
_ql_typeexpr_get_types(qlast.TypeOf)).

exit 0: after try_type_rewrite the environment holds the filtered set for the
type;  exit 1: it holds None (the SQL compiler then reads the raw table).
usage: policy_typeof_rewrite_lost.py [repo_root]
"""
import sys, types, uuid, contextlib, importlib.abc, importlib.machinery

ROOT = sys.argv[1] if len(sys.argv) > 1 else '/repo'


class _Any(types.ModuleType):
    __path__ = []

    def __getattr__(self, n):
        if n.startswith('__'):
            raise AttributeError(n)
        t = type(n, (), {})
        setattr(self, n, t)
        return t


class _Finder(importlib.abc.MetaPathFinder, importlib.abc.Loader):
    def find_spec(self, name, path, target=None):
        if name == 'parsing' or name.startswith('parsing.'):
            return importlib.machinery.ModuleSpec(name, self, is_package=True)

    def create_module(self, spec):
        return _Any(spec.name)

    def exec_module(self, m):
        pass


sys.meta_path.append(_Finder())
_p = _Any('edb._edgeql_parser')
for k in ('unreserved_keywords', 'future_reserved_keywords',
          'current_reserved_keywords', 'partial_reserved_keywords'):
    setattr(_p, k, frozenset())
sys.modules['edb._edgeql_parser'] = _p


class _UUID(uuid.UUID):
    def __init__(self, v):
        if isinstance(v, (bytes, bytearray)):
            super().__init__(bytes=bytes(v))
        elif isinstance(v, uuid.UUID):
            super().__init__(bytes=v.bytes)
        else:
            super().__init__(v)


_t = types.ModuleType('edb.common.turbo_uuid')
_t.UUID = _UUID
sys.modules['edb.common.turbo_uuid'] = _t
sys.path.insert(0, ROOT)
import edb.common  # noqa
edb.common.turbo_uuid = _t

from edb.edgeql import ast as qlast  # noqa
from edb.edgeql.compiler import policies, typegen  # noqa


class Env:
    def __init__(self):
        self.schema = object()
        self.type_rewrites = {}
        self.path_scope = types.SimpleNamespace(
            root=types.SimpleNamespace(attach_fence=lambda: 'fence'))


class Ctx:
    def __init__(self, env):
        self.env = env
        self.anchors = {}
        self.partial_path_prefix = None
        self.path_scope = None
        self.expr_exposed = None

    @contextlib.contextmanager
    def _sub(self):
        yield Ctx(self.env)

    detached = new = _sub


class SType:
    def is_compound_type(self, schema): return False
    def children(self, schema): return []
    def get_abstract(self, schema): return False
    def __repr__(self): return '<type Doc>'


def rewrite_filter_with_typeof(stype, *, mode, ctx):
    # what compiling `... typeof X ...` inside the policy body does
    typegen._ql_typeexpr_get_types(
        qlast.TypeOf(expr=qlast.Path(steps=[qlast.ObjectRef(name='X')])),
        ctx=ctx)
    return 'FILTER'


policies.get_access_policies = lambda stype, ctx: ['policy']
policies.has_own_policies = lambda **kw: False
policies.get_rewrite_filter = rewrite_filter_with_typeof
policies.setgen.class_set = lambda **kw: 'BASE'
policies.setgen.scoped_set = lambda stmt, ctx: ('FILTERED', stmt.where)
from edb.edgeql.compiler import clauses  # noqa
clauses.compile_where_clause = lambda e, ctx: e
typegen.dispatch.compile = lambda e, ctx: 'IR'
typegen.setgen.get_set_type = lambda s, ctx: 'T'

env = Env()
ctx = Ctx(env)
doc = SType()
policies.try_type_rewrite(doc, skip_subtypes=False, ctx=ctx)
got = env.type_rewrites.get((doc, False), 'MISSING')
print('env.type_rewrites[(Doc, False)] =', got)
if got in (None, 'MISSING'):
    print('C07 VIOLATED: Doc has an access policy, but the environment '
          'records no rewrite for it; fini_expression drops the entry and '
          'range_for_material_objtype selects from the raw table')
    sys.exit(1)
print('ok: the filtered set is registered')
