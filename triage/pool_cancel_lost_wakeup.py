"""Demonstration for C16.R1(b): Block.try_acquire loses a wake-up when a
woken waiter is cancelled.

capacity 1, db 'A'.  Holder has the connection; W1 and W2 wait.  release()
wakes W1 (sets its future) — before W1 runs, W1 is cancelled.  `await waiter`
raises CancelledError, which `except Exception` does not catch, so the
wake-up is not passed on: the connection sits idle on the stack and W2 waits
forever although a connection is available.
exit 1 = lost wake-up observed.
"""
import asyncio, logging, sys, os
sys.path.insert(0, os.path.dirname(__file__))
import pool_load
logging.disable(logging.CRITICAL)
pool = pool_load.load()

async def main():
    n = 0
    async def connect(db):
        nonlocal n; n += 1
        return f'{db}-{n}'
    async def disconnect(conn):
        pass
    p = pool.Pool(connect=connect, disconnect=disconnect, max_capacity=1)
    c = await p.acquire('A')
    w1 = asyncio.ensure_future(p.acquire('A'))
    w2 = asyncio.ensure_future(p.acquire('A'))
    await asyncio.sleep(0.05)
    p.release('A', c)       # wakes w1's waiter future
    w1.cancel()             # ... and w1 is cancelled in the same loop turn
    done, _ = await asyncio.wait([w2], timeout=2.0)
    blk = p._blocks['A']
    print('W2 served:', bool(done), 'idle on stack:', len(blk.conn_stack),
          'waiters:', blk.count_waiters())
    lost = (not done) and len(blk.conn_stack) == 1
    if not done:
        w2.cancel()
    return 1 if lost else 0

loop = asyncio.new_event_loop()
loop.set_exception_handler(lambda l, c: None)
rc = loop.run_until_complete(main())
print('LOST-WAKEUP' if rc else 'OK')
sys.exit(rc)
