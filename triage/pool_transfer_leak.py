"""Demonstration for C15.R1 / C16.R4 finding BasePool._transfer:ledger.

max_capacity=1.  acquire('A') gets the only connection; acquire('B') waits.
release('A') transfers the connection to B: disconnect from A, then connect
to B.  When the disconnect callback fails, the original code abandons the
transfer: B.pending_conns stays 1 forever, capacity drops to 0, nothing is
in flight and B's acquire never completes.
exit 1 = leak observed, exit 0 = no leak.
"""
import asyncio, logging, sys, os
sys.path.insert(0, os.path.dirname(__file__))
import pool_load
logging.disable(logging.CRITICAL)
pool = pool_load.load()

async def main():
    n = 0
    async def connect(db):
        nonlocal n; n += 1
        return f'{db}-{n}'
    async def disconnect(conn):
        raise ConnectionError('backend already gone')
    p = pool.Pool(connect=connect, disconnect=disconnect, max_capacity=1)
    a = await p.acquire('A')
    tb = asyncio.ensure_future(p.acquire('B'))
    await asyncio.sleep(0.05)
    p.release('A', a)
    done, _ = await asyncio.wait([tb], timeout=2.0)
    blk = p._blocks['B']
    print('B served:', bool(done), 'capacity:', p.current_capacity,
          'B.pending_conns:', blk.pending_conns, 'B.conns:', len(blk.conns))
    leaked = (not done) and blk.pending_conns == 1 and p.current_capacity == 0
    if not done:
        tb.cancel()
    return 1 if leaked else 0

loop = asyncio.new_event_loop()
loop.set_exception_handler(lambda l, c: None)
rc = loop.run_until_complete(main())
print('LEAK' if rc else 'OK')
sys.exit(rc)
