"""Tiny hand-built stand-in for the standard library schema.

Everything here only *calls* real repository code (edb.schema.*); the objects
are created with the real `create_in_schema` constructors.  What is "stubbed"
is merely that the schema is populated programmatically instead of by
bootstrapping edb/lib/*.edgeql (the EdgeQL parser is not built here).
"""
from edb.schema import schema as s_schema, modules as s_mod
from edb.schema import scalars as s_scalars, name as sn, casts as s_casts
from edb.schema import types as s_types, objects as so, pseudo as s_pseudo
from edb.schema import functions as s_func, operators as s_oper
from edb.edgeql import qltypes as ft


class Std:
    def __init__(self):
        schema = s_schema.EMPTY_SCHEMA
        for m in ('std', 'default'):
            schema, _ = s_mod.Module.create_in_schema(
                schema, name=sn.UnqualName(m))
        self.schema = schema
        self.t = {}
        for n in ('anytype', 'anytuple', 'anyobject'):
            self.schema, pt = s_pseudo.PseudoType.create_in_schema(
                self.schema, name=sn.UnqualName(n))
            setattr(self, n, pt)
        S = self.scalar
        S('std::anyscalar', abstract=True)
        S('std::anypoint', ['std::anyscalar'], abstract=True)
        S('std::anydiscrete', ['std::anypoint'], abstract=True)
        S('std::anycontiguous', ['std::anypoint'], abstract=True)
        S('std::anyreal', ['std::anyscalar'], abstract=True)
        S('std::anyint', ['std::anyreal', 'std::anydiscrete'], abstract=True)
        S('std::anyfloat', ['std::anyreal', 'std::anycontiguous'],
          abstract=True)
        S('std::anynumeric', ['std::anyreal'], abstract=True)
        for n in ('int16', 'int32', 'int64'):
            S(f'std::{n}', ['std::anyint'])
        for n in ('float32', 'float64'):
            S(f'std::{n}', ['std::anyfloat'])
        S('std::bigint', ['std::anynumeric', 'std::anyint'])
        S('std::decimal', ['std::anynumeric'])
        S('std::str', ['std::anyscalar'])
        S('std::bool', ['std::anyscalar'])
        S('std::bytes', ['std::anyscalar'])
        S('std::uuid', ['std::anyscalar'])
        S('std::json', ['std::anyscalar'])
        # The implicit cast lattice of edb/lib/std/30-casts.edgeql
        for a, b in [
            ('int16', 'int32'), ('int32', 'int64'), ('int16', 'float32'),
            ('int64', 'float64'), ('int64', 'bigint'), ('int32', 'float64'),
            ('float32', 'float64'), ('bigint', 'decimal'),
        ]:
            self.cast(f'std::{a}', f'std::{b}', implicit=True)

    def scalar(self, name, bases=(), abstract=False):
        schema = self.schema
        bases = [self.t[b] for b in bases]
        anc = []
        for b in bases:
            for a in [b, *b.get_ancestors(schema).objects(schema)]:
                if a not in anc:
                    anc.append(a)
        self.schema, t = s_scalars.ScalarType.create_in_schema(
            schema,
            name=sn.name_from_string(name),
            bases=so.ObjectList.create(schema, bases),
            ancestors=so.ObjectList.create(schema, anc),
            abstract=abstract,
        )
        self.t[name] = t
        return t

    def cast(self, a, b, implicit=False, assignment=False):
        a = self.t[a] if isinstance(a, str) else a
        b = self.t[b] if isinstance(b, str) else b
        self.schema, c = s_casts.Cast.create_in_schema(
            self.schema,
            name=s_casts.get_cast_fullname_from_names(
                a.get_name(self.schema), b.get_name(self.schema)),
            from_type=a, to_type=b,
            allow_implicit=implicit, allow_assignment=assignment,
            volatility=ft.Volatility.Immutable,
        )
        return c

    def array(self, el):
        el = self.t[el] if isinstance(el, str) else el
        self.schema, a = s_types.Array.from_subtypes(self.schema, [el])
        return a

    def tuple(self, els, named=False):
        if named:
            els = {k: (self.t[v] if isinstance(v, str) else v)
                   for k, v in els.items()}
            self.schema, t = s_types.Tuple.from_subtypes(
                self.schema, els, {'named': True})
        else:
            els = [(self.t[v] if isinstance(v, str) else v) for v in els]
            self.schema, t = s_types.Tuple.from_subtypes(self.schema, els)
        return t

    def _params(self, fullname, params):
        objs = []
        for num, (pname, ptype, typemod, kind) in enumerate(params):
            ptype = self.t[ptype] if isinstance(ptype, str) else ptype
            pn = sn.QualName(
                fullname.module,
                sn.get_specialized_name(
                    sn.UnqualName(pname), str(fullname)))
            self.schema, p = s_func.Parameter.create_in_schema(
                self.schema, name=pn, num=num, type=ptype,
                typemod=typemod, kind=kind)
            objs.append(p)
        return s_func.FuncParameterList.create(self.schema, objs)

    def operator(self, opname, argtypes, rettype, *, kind=ft.OperatorKind.Infix,
                 typemods=None, ret_typemod=ft.TypeModifier.SingletonType,
                 abstract=False, recursive=False):
        argtypes = [self.t[a] if isinstance(a, str) else a for a in argtypes]
        rettype = self.t[rettype] if isinstance(rettype, str) else rettype
        typemods = typemods or [ft.TypeModifier.SingletonType] * len(argtypes)
        short = sn.QualName('std', opname)
        quals = [f'{a.get_name(self.schema)}:{tm}' for a, tm
                 in zip(argtypes, typemods)]
        fullname = sn.QualName(
            'std', sn.get_specialized_name(short, *quals))
        plist = self._params(fullname, [
            (('l', 'r', 'x')[i] if len(argtypes) < 3 else f'a{i}', a, tm,
             ft.ParameterKind.PositionalParam)
            for i, (a, tm) in enumerate(zip(argtypes, typemods))
        ])
        self.schema, op = s_oper.Operator.create_in_schema(
            self.schema, name=fullname, params=plist,
            return_type=rettype, return_typemod=ret_typemod,
            operator_kind=kind, abstract=abstract, recursive=recursive,
            volatility=ft.Volatility.Immutable,
            from_operator=[opname],
        )
        return op

    def function(self, fname, params, rettype, *,
                 ret_typemod=ft.TypeModifier.SingletonType):
        """params: list of (name, type, typemod, kind)."""
        rettype = self.t[rettype] if isinstance(rettype, str) else rettype
        params = [
            (n, self.t[t] if isinstance(t, str) else t, tm, k)
            for n, t, tm, k in params
        ]
        short = sn.name_from_string(fname)
        quals = [f'{t.get_name(self.schema)}:{tm}' for _, t, tm, _ in params]
        fullname = sn.QualName(
            short.module, sn.get_specialized_name(short, *quals))
        plist = self._params(fullname, params)
        self.schema, fn = s_func.Function.create_in_schema(
            self.schema, name=fullname, params=plist,
            return_type=rettype, return_typemod=ret_typemod,
            volatility=ft.Volatility.Immutable,
            language='SQL', from_function=short.name,
        )
        return fn
