import os, sys
HERE = os.path.dirname(os.path.abspath(__file__))
ROOT = sys.argv[1] if len(sys.argv) > 1 else '/repo'
sys.path.insert(0, HERE)
import harness
harness.install(ROOT)
import ministd
from edb.edgeql import ast as qlast, compiler as qlcompiler
from edb.edgeql import qltypes as ft
from edb.edgeql.compiler import options as coptions
std = ministd.Std()
ONE = ft.TypeModifier.SingletonType
POS = ft.ParameterKind.PositionalParam
std.function('default::wrap', [('x', std.anytype, ONE, POS)],
             std.array(std.tuple(['std::int64', std.anytype])))
std.function('default::wrap2', [('x', std.anytype, ONE, POS)],
             std.array(std.tuple({'n': 'std::int64', 'v': std.anytype}, named=True)))
def I(v): return qlast.Constant(value=str(v), kind=qlast.ConstantKind.INTEGER)
def S(v): return qlast.Constant(value=v, kind=qlast.ConstantKind.STRING)
def call(name, *args): return qlast.FunctionCall(func=('default', name), args=list(args))
def inferred(expr):
    ir = qlcompiler.compile_ast_to_ir(qlast.SelectQuery(result=expr), std.schema,
        options=coptions.CompilerOptions(modaliases={None: 'default'}))
    return ir.stype.get_displayname(ir.schema)
bad = 0
for d, e, exp in [("wrap('x')", call('wrap', S('x')), 'array<tuple<std::int64, std::str>>'),
                  ("wrap2(1)", call('wrap2', I(1)), 'array<tuple<n: std::int64, v: std::int64>>')]:
    try: got = inferred(e)
    except Exception as ex: got = f'<{type(ex).__name__}: {ex}>'
    print(d, '->', got, '| expected', exp)
    bad += got != exp
sys.exit(1 if bad else 0)
