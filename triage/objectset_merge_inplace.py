#!/venv/bin/python
"""Triage for C04.R6: does ObjectSet.merge_values mutate a stored field value?

Outcome on the pinned tree: NO.  The statement `result._ids |= theirs._ids`
would rebind a slot of a collection object shared by every schema version,
but stored collections are restored with tuple ids, for which `|=` raises
TypeError before anything is changed (and no schema class ever merges two
non-empty ObjectSet values).  The site is therefore an audited exception of
C04.R6, not a finding.

Runs the real edb.schema code (native modules edb._edgeql_parser, parsing and
edb.common.turbo_uuid stubbed at import time; nothing in edb.schema is
replaced).  Builds one schema S with U1.union_of = {X, Y} and
U2.union_of = {Z, W}, then asks ObjectSet.merge_values to merge the field for
a third object from sources [U1, U2] -- what inherit_fields does for an
inheritable ObjectSet field.  S is never "changed" by that call (no new schema
is even returned), yet afterwards S answers U1.union_of = {X, Y, Z, W}.

exit 0: S unchanged;  exit 1: S changed in place.
usage: objectset_merge_inplace.py [repo_root]
"""
import sys, types, uuid, importlib.abc, importlib.machinery

ROOT = sys.argv[1] if len(sys.argv) > 1 else '/repo'


class _Any(types.ModuleType):
    __path__ = []

    def __getattr__(self, n):
        if n.startswith('__'):
            raise AttributeError(n)
        t = type(n, (), {})
        setattr(self, n, t)
        return t


class _Finder(importlib.abc.MetaPathFinder, importlib.abc.Loader):
    def find_spec(self, name, path, target=None):
        if name == 'parsing' or name.startswith('parsing.'):
            return importlib.machinery.ModuleSpec(name, self, is_package=True)

    def create_module(self, spec):
        return _Any(spec.name)

    def exec_module(self, m):
        pass


sys.meta_path.append(_Finder())
_p = _Any('edb._edgeql_parser')
for k in ('unreserved_keywords', 'future_reserved_keywords',
          'current_reserved_keywords', 'partial_reserved_keywords'):
    setattr(_p, k, frozenset())
sys.modules['edb._edgeql_parser'] = _p


class _UUID(uuid.UUID):
    def __init__(self, v):
        if isinstance(v, (bytes, bytearray)):
            super().__init__(bytes=bytes(v))
        elif isinstance(v, uuid.UUID):
            super().__init__(bytes=v.bytes)
        else:
            super().__init__(v)


_t = types.ModuleType('edb.common.turbo_uuid')
_t.UUID = _UUID
sys.modules['edb.common.turbo_uuid'] = _t
sys.path.insert(0, ROOT)
import edb.common  # noqa
edb.common.turbo_uuid = _t

from edb.schema import schema as s_schema  # noqa
from edb.schema import modules as s_mod  # noqa
from edb.schema import objtypes as s_objtypes  # noqa
from edb.schema import name as sn  # noqa
from edb.schema import objects as so  # noqa
from edb.schema import ddl  # noqa

S = s_schema.EMPTY_SCHEMA
S, _ = s_mod.Module.create_in_schema(S, name=sn.UnqualName('test'))
objs = {}
for nm in 'XYZWT':
    S, objs[nm] = s_objtypes.ObjectType.create_in_schema(
        S, name=sn.QualName('test', nm))
S, u1 = s_objtypes.ObjectType.create_in_schema(
    S, name=sn.QualName('test', 'U1'),
    union_of=so.ObjectSet.create(S, [objs['X'], objs['Y']]))
S, u2 = s_objtypes.ObjectType.create_in_schema(
    S, name=sn.QualName('test', 'U2'),
    union_of=so.ObjectSet.create(S, [objs['Z'], objs['W']]))


def names(schema, o):
    return sorted(str(x.get_name(schema)) for x in
                  o.get_union_of(schema).objects(schema))


before = names(S, u1)
data_before = dict(S._id_to_data.items())
try:
    so.ObjectSet.merge_values(objs['T'], [u1, u2], 'union_of', schema=S)
except TypeError as e:
    print('merge_values raised before mutating anything:', e)
after = names(S, u1)
print('U1.union_of in S before merge_values:', before)
print('U1.union_of in S after  merge_values:', after)
print('raw data maps equal:', data_before == dict(S._id_to_data.items()),
      '(the same collection object sits in both, so == cannot see it)')
if before != after:
    print('C04 VIOLATED: a schema version changed without a new version '
          'being produced')
    sys.exit(1)
print('ok: the schema version is unchanged')
