"""Demonstration for C14.R3 finding _describe_object_shape:list=sources.

Executes the real descriptor-encoding functions of
edb/server/compiler/sertypes.py (lifted by name from the source; the module
itself cannot be imported here because the schema package needs the native
parser) on duck-typed schema objects:

    type Base; type A extending Base { x: str }; type B extending Base { x: str }
    shape 1:  Base { [is A].x }        shape 2:  Base { [is B].x }

Both shapes get the same descriptor id, but their protocol-2.0 descriptor
bytes differ (ShapeElement.source_type refers to A in one and to B in the
other).  "Equal descriptor ids imply byte-identical descriptors" fails, and
within one stream the second shape would be deduplicated to the first.
exit 1 = same id, different bytes.
"""
import ast, enum, functools, os, struct, sys, types, uuid
from typing import *

REPO = os.environ.get('VERIF_REPO', '/repo')
src = open(os.path.join(REPO, 'edb/server/compiler/sertypes.py')).read()
tree = ast.parse(src)
KEEP_FUNCS = {'_string_packer', '_name_packer', '_bool_packer', '_get_object_shape_id',
              '_register_type_id', '_describe_type', '_type_ref_packer', '_type_ref_id_packer',
              '_type_ref_seq_packer', '_type_ref_id_seq_packer', '_finish_typedesc',
              '_describe_object_shape', '_describe_object_type', '_describe_regular_object_type',
              '_describe_scalar_type', '_describe_regular_scalar', '_get_set_type_id', '_describe_set'}
KEEP_CLASSES = {'DescriptorTag', 'ShapePointerFlags', 'CompoundOp', 'Context'}
body = []
for n in tree.body:
    if isinstance(n, ast.FunctionDef) and n.name in KEEP_FUNCS:
        body.append(n)
    elif isinstance(n, ast.ClassDef) and n.name in KEEP_CLASSES:
        body.append(n)
    elif isinstance(n, ast.Assign) and isinstance(n.targets[0], ast.Name) and (
            n.targets[0].id.endswith(('_packer', '_struct')) or n.targets[0].id in ('UUID_TYPE_ID', 'STR_TYPE_ID')):
        body.append(n)

class Stub(types.SimpleNamespace):
    pass
class Link: pass
class ObjectType: pass
class ScalarType: pass
class Cardinality(enum.Enum):
    AT_MOST_ONE = 0x6f
    ONE = 0x41
KNOWN = {'std::uuid': uuid.UUID(int=0x100), 'std::str': uuid.UUID(int=0x101)}
ns = dict(
    __name__='sertypes_lifted', annotations=None,
    struct=struct, enum=enum, functools=functools, uuid=uuid, cast=cast, Callable=Callable,
    Sequence=Sequence, Optional=Optional, Mapping=Mapping, Iterable=Iterable,
    immutables=Stub(Map=dict),
    uuidgen=Stub(uuid5=uuid.uuid5, UUID=uuid.UUID),
    s_obj=Stub(get_known_type_id=lambda n: KNOWN[n], TYPE_ID_NAMESPACE=uuid.UUID(int=7), Object=object),
    s_links=Stub(Link=Link), s_objtypes=Stub(ObjectType=ObjectType), s_scalars=Stub(ScalarType=ScalarType),
    s_types=Stub(Type=object), s_pointers=Stub(Pointer=object), s_schema=Stub(Schema=object),
    s_name=Stub(Name=str), s_globals=Stub(Global=object), irast=Stub(ViewShapeMetadata=object),
    edbdef=Stub(ProtocolVersion=tuple), enums=Stub(Cardinality=Cardinality),
    errors=Stub(InternalServerError=RuntimeError),
)
exec(compile(ast.fix_missing_locations(ast.Module(
    body=[ast.ImportFrom(module='__future__', names=[ast.alias(name='annotations')], level=0)] + body,
    type_ignores=[])), 'sertypes.py', 'exec'), ns)
ns['cardinality_from_ptr'] = lambda ptr, schema: Cardinality.AT_MOST_ONE   # not under test
ns['ViewShapeMap'] = ns['ViewShapeMetadataMap'] = dict

class Sc(ScalarType):
    def __init__(s, name): s.id = KNOWN[name]; s.name = name
    def material_type(s, schema): return schema, s
    def is_enum(s, schema): return False
    def get_topmost_concrete_base(s, schema): return s
    def get_name(s, schema): return s.name
class Obj(ObjectType):
    def __init__(s, name, n): s.name = name; s.id = uuid.UUID(int=0x200 + n)
    def material_type(s, schema): return schema, s
    def get_name(s, schema): return s.name
    def get_rptr(s, schema): return None
    def is_free_object_type(s, schema): return False
    def is_compound_type(s, schema): return False
    def __hash__(s): return hash(s.id)
class Ptr:
    def __init__(s, name, target, source): s._n, s._t, s._s = name, target, source
    def get_shortname(s, schema): return Stub(name=s._n)
    def singular(s, schema): return True
    def get_target(s, schema): return s._t
    def is_property(s, schema): return True
    def material_type(s, schema): return schema, s
    def get_source(s, schema): return s._s
# singledispatch registration used our stub classes through the annotations
STR = Sc('std::str')
Base, A, B = Obj('default::Base', 0), Obj('default::A', 1), Obj('default::B', 2)
view1, view2 = Obj('default::Base', 10), Obj('default::Base', 11)   # two views over Base
view1.material_type = view2.material_type = lambda schema: (schema, Base)

def describe(view, ptr):
    ctx = ns['Context'](schema=object(), protocol_version=(2, 0), view_shapes={view: [ptr]})
    tid = ns['_describe_type'](view, ctx=ctx)
    return tid, b''.join(ctx.buffer)

id1, b1 = describe(view1, Ptr('x', STR, A))
id2, b2 = describe(view2, Ptr('x', STR, B))
print('shape 1 id', id1, len(b1), 'bytes')
print('shape 2 id', id2, len(b2), 'bytes')
print('ids equal:', id1 == id2, ' bytes equal:', b1 == b2)
bad = id1 == id2 and b1 != b2
print('SAME-ID-DIFFERENT-BYTES' if bad else 'OK')
sys.exit(1 if bad else 0)
