import sys
sys.path.insert(0, '/tmp/seed_out4/C10/work')
import prelude
from prelude import *
install_stubs(sys.argv[1])
std = make_std()
STR='std::str'
cases = {
 'A_rename_base_and_detach_keeping_prop': [
   SDL(T('Base', P('name', STR)), T('Foo', bases=['Base'])),
   SDL(T('Base2', P('name', STR)), T('Foo', P('name', STR))),
 ],
 'B_detach_owned_overload_with_abstract_base': [
   SDL(AP('ap'), T('A', P('foo',STR, bases=['ap'])), T('B', bases=['A']), T('C', P('foo', STR, required=True, overloaded=True), bases=['B'])),
   SDL(AP('ap'), T('A', P('foo',STR, bases=['ap'])), T('B', bases=['A']), T('C', P('foo', STR, required=True))),
 ],
 'B2_same_two_levels': [
   SDL(AP('ap'), T('A', P('foo',STR, bases=['ap'])), T('C', P('foo', STR, required=True, overloaded=True), bases=['A'])),
   SDL(AP('ap'), T('A', P('foo',STR, bases=['ap'])), T('C', P('foo', STR, required=True))),
 ],
}
for k, ch in cases.items():
    print('=====', k)
    for p in check_chain(std, ch, verbose=True): print(p)
