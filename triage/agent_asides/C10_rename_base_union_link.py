import sys
sys.path.insert(0, '/tmp/seed_out4/C10/work')
from prelude import *
install_stubs(sys.argv[1])
std = make_std()
STR='std::str'; INT='std::int64'
cases = {
 'A0_orig': [
   SDL(T('Base', P('name',STR)), T('Foo', P('x',INT), L('b','Base'), bases=['Base'])),
   SDL(T('Base2', P('name',STR)), T('Foo', P('x',INT), P('name', STR), L('b','Base2 | Foo', multi=True))),
 ],
 'A1_no_union': [
   SDL(T('Base', P('name',STR)), T('Foo', L('b','Base'), bases=['Base'])),
   SDL(T('Base2', P('name',STR)), T('Foo', P('name', STR), L('b','Base2'))),
 ],
 'A2_no_ownprop': [
   SDL(T('Base', P('name',STR)), T('Foo', L('b','Base'), bases=['Base'])),
   SDL(T('Base2', P('name',STR)), T('Foo', L('b','Base2'))),
 ],
}
for k, ch in cases.items():
    print('=====', k)
    for p in check_chain(std, ch, verbose=True): print(p)
