import asyncio
import enum
import importlib.util
import os
import pickle
import queue as _queue
import sys
import threading
import types

if len(sys.argv) != 2:
    sys.exit('usage: demo.py <repo-root>')
ROOT = os.path.abspath(sys.argv[1])
sys.path.insert(0, ROOT)

import immutables  # noqa: E402  (third-party, installed in /venv)


# ---------------------------------------------------------------------------
# Stubs for the parts of the tree that cannot be imported in this sandbox
# (native extensions, the parser, the real compiler).  Everything under
# edb/server/compiler_pool/ that is exercised below is the REAL code.
# ---------------------------------------------------------------------------
def _mod(name, **attrs):
    m = types.ModuleType(name)
    m.__dict__.update(attrs)
    sys.modules[name] = m
    parent, _, child = name.rpartition('.')
    if parent in sys.modules:
        setattr(sys.modules[parent], child, m)
    return m


def _pkg(name, path):
    m = _mod(name)
    m.__path__ = [path]
    return m


def install_stubs():
    import uuid as _uuid
    import edb  # noqa: F401  real
    import edb.common  # noqa: F401  real
    import edb.server  # noqa: F401  real (empty __init__)

    class UUID(_uuid.UUID):
        def __init__(self, v=None, **kw):
            if isinstance(v, _uuid.UUID):
                super().__init__(int=v.int)
            elif isinstance(v, (bytes, bytearray)):
                super().__init__(bytes=bytes(v))
            else:
                super().__init__(v, **kw)

    _mod('edb.common.turbo_uuid', UUID=UUID)

    # edb.schema: synthetic package on the real path, so that only
    # edb.schema.defines (needed by edb.server.defines) is really loaded.
    _pkg('edb.schema', os.path.join(ROOT, 'edb', 'schema'))
    _mod('edb.schema.schema', FlatSchema=object, Schema=object)

    eq = _pkg('edb.edgeql', os.path.join(ROOT, 'edb', 'edgeql', '-stub-'))
    _mod('edb.edgeql.parser', preload_spec=lambda: None)
    eq.Source = types.SimpleNamespace(from_string=lambda text: text)
    eq.generate_source = lambda ast, pretty=True: str(ast)
    _mod('edb.graphql')

    class _Mode:
        def assign_implementation(self, cls):
            return cls

    _mod(
        'edb.server.args',
        CompilerPoolMode=types.SimpleNamespace(
            Fixed=_Mode(), OnDemand=_Mode(), Remote=_Mode(),
            MultiTenant=_Mode(),
        ),
    )
    _mod('edb.server.dbview', DatabaseIndex=object)

    class _Metric:
        def inc(self, *a, **k):
            pass

        dec = observe = inc

    _mod('edb.server.metrics',
         compiler_process_spawns=_Metric(),
         current_compiler_processes=_Metric())
    _mod('edb.server.config', SettingValue=object)

    comp = _mod('edb.server.compiler')
    comp.Compiler = object
    comp.QueryUnitGroup = object
    comp.dbstate = _mod('edb.server.compiler.dbstate',
                        CompilerConnectionState=object)
    comp.OutputFormat = comp.InputFormat = enum.Enum('Fmt', 'JSON BINARY')
    comp.CompilationRequest = lambda **kw: types.SimpleNamespace(**kw)


install_stubs()

from edb.pgsql import params as pgparams  # noqa: E402
from edb.server.compiler_pool import amsg as cp_amsg  # noqa: E402
from edb.server.compiler_pool import pool as cp_pool  # noqa: E402
from edb.server.compiler_pool import queue as cp_queue  # noqa: E402
from edb.server.compiler_pool import state as cp_state  # noqa: E402
from edb.server.compiler_pool import worker_proc as cp_worker_proc  # noqa

assert cp_pool.__file__.startswith(ROOT), cp_pool.__file__


# ---------------------------------------------------------------------------
# The compiler proper is replaced, inside every simulated worker process, by
# a recorder: it notes with which state the worker-side entry point
# (worker.compile(), worker.compile_in_tx(), ...) invoked the compiler.
# ---------------------------------------------------------------------------
class QueryError(Exception):
    """A user error found while compiling (e.g. a typo in the query)."""


class TxState:
    """Stand-in for dbstate.CompilerConnectionState: picklable, does not
    pickle the root user schema (like the real one), and is updated by every
    statement compiled in the transaction."""

    def __init__(self, owner, user_schema):
        self.owner = owner          # which connection's transaction
        self.statements = []        # what was compiled in it so far
        self.root_user_schema = user_schema

    def __getstate__(self):
        return (self.owner, self.statements)

    def __setstate__(self, st):
        self.owner, self.statements = st
        self.statements = list(self.statements)
        self.root_user_schema = None

    def set_root_user_schema(self, user_schema):
        self.root_user_schema = user_schema

    def describe(self):
        return (self.owner, tuple(self.statements))


class Recorder:
    def __init__(self):
        self.calls = []

    @property
    def last(self):
        return self.calls[-1]

    def _state(self, meth, us, gs, rc, dc, sc):
        self.calls.append(dict(
            method=meth, user_schema=us, global_schema=gs,
            reflection_cache=rc, database_config=dc, system_config=sc,
        ))

    def compile_serialized_request(
        self, us, gs, rc, dc, sc, request, text
    ):
        self._state('compile', us, gs, rc, dc, sc)
        if text.startswith('START TRANSACTION'):
            owner = text.partition('--')[2].strip()
            return f'units({text})', TxState(owner, us)
        return f'units({text})', None

    def compile_serialized_request_in_tx(
        self, cstate, txid, request, text, expect_rollback=False
    ):
        self.calls.append(dict(
            method='compile_in_tx', tx=cstate.describe(),
            root_user_schema=cstate.root_user_schema, text=text,
        ))
        if 'TYPO' in text:
            raise QueryError(f'cannot compile {text!r}')
        cstate.statements.append(text)
        return f'units({text})', cstate

    def compile_notebook(self, us, gs, rc, dc, sc, queries, *rest):
        self._state('compile_notebook', us, gs, rc, dc, sc)
        return [(False, f'unit({q})') for q in queries]

    def compile_sql(self, us, gs, rc, dc, sc, *rest):
        self._state('compile_sql', us, gs, rc, dc, sc)
        return ['sql-unit']


def load_worker_module(kind, serial):
    """A private copy of the REAL worker.py / multitenant_worker.py: one per
    simulated worker process (they keep their state in module globals)."""
    name = f'edb.server.compiler_pool._{kind}_{serial}'
    path = os.path.join(ROOT, 'edb', 'server', 'compiler_pool', kind + '.py')
    spec = importlib.util.spec_from_file_location(name, path)
    mod = importlib.util.module_from_spec(spec)
    sys.modules[name] = mod
    spec.loader.exec_module(mod)
    recorder = Recorder()
    real = sys.modules['edb.server.compiler']
    mod.compiler = types.SimpleNamespace(
        new_compiler=lambda *a, **k: recorder,
        dbstate=real.dbstate,
        CompilationRequest=real.CompilationRequest,
        OutputFormat=real.OutputFormat,
        InputFormat=real.InputFormat,
    )
    return mod, recorder


class FakeWorkerProcess:
    """One simulated compiler worker process: a thread that runs the REAL
    request loop worker_proc.worker() over the REAL get_handler() of its
    private worker module; the unix socket is replaced by two queues."""

    def __init__(self, pid, kind='worker'):
        self.pid = pid
        self.module, self.recorder = load_worker_module(kind, pid)
        self.inq = _queue.Queue()
        self.outq = _queue.Queue()
        self.thread = threading.Thread(target=self._run, daemon=True)
        self.thread.start()

    # the amsg.WorkerConnection interface used by worker_proc.worker()
    def iter_request(self):
        while True:
            item = self.inq.get()
            if item is None:
                return
            yield item

    def reply(self, req_id, payload):
        self.outq.put((req_id, payload))

    def abort(self):
        pass

    def _run(self):
        cp_worker_proc.worker(self, 0, self.module.get_handler)

    # the amsg.HubConnection interface used by pool.BaseWorker
    def is_closed(self):
        return False

    async def request(self, msg):
        self.inq.put((1, msg))
        loop = asyncio.get_running_loop()
        req_id, payload = await loop.run_in_executor(None, self.outq.get)
        return payload


# worker_proc.worker() does amsg.WorkerConnection(sockname, version): hand it
# the FakeWorkerProcess that we pass in place of the socket name.
cp_amsg.WorkerConnection = lambda sockname, version: sockname


class FakeDbIndex:
    def __init__(self, dbs, global_schema_pickle, system_config):
        self.args = (dbs, global_schema_pickle, system_config)

    def get_cached_compiler_args(self):
        return self.args


async def make_pool(pool_class, procs, dbindex=None, **kwargs):
    """A REAL pool object (not started: no processes, no socket) to which the
    simulated worker processes are attached through the REAL
    BaseLocalPool._attach_worker()."""
    loop = asyncio.get_running_loop()
    pool = pool_class(
        loop=loop,
        runstate_dir='/tmp/demo-runstate',
        pool_size=len(procs),
        backend_runtime_params=pgparams.get_default_runtime_params(),
        std_schema='STD-SCHEMA',
        refl_schema='REFL-SCHEMA',
        schema_class_layout='LAYOUT',
        dbindex=dbindex,
        **kwargs,
    )
    pool._workers_queue = cp_queue.WorkerQueue(loop)
    pool._running = True
    for proc in procs:
        pool._server._pids[proc.pid] = proc
        await pool._attach_worker(proc.pid)
    return pool


def P(obj):
    return pickle.dumps(obj, -1)


FAILURES = []


def check(cond, msg):
    if cond:
        print('   ok  :', msg)
    else:
        print('   FAIL:', msg)
        FAILURES.append(msg)


def finish():
    if FAILURES:
        print(f'\nPROPERTY VIOLATED ({len(FAILURES)} check(s) failed):')
        for f in FAILURES:
            print('  -', f)
        sys.exit(1)
    print('\nall checks passed: the workers compiled against the state '
          'supplied with each request')
    sys.exit(0)


class IdProc(FakeWorkerProcess):
    """Like FakeWorkerProcess, but with request ids, so that the reply to a
    cancelled request is dropped (as amsg.HubProtocol does)."""
    _cnt = 0

    async def request(self, msg):
        self._cnt += 1
        rid = self._cnt
        self.inq.put((rid, msg))
        loop = asyncio.get_running_loop()
        while True:
            req_id, payload = await loop.run_in_executor(None, self.outq.get)
            if req_id == rid:
                return payload


async def aside1():
    print('ASIDE 1: compile() cancelled while the worker is busy with it')
    S1 = P('user schema v1'); G1 = P('global v1')
    RC = immutables.Map({'r': ('q',)}); DC = immutables.Map({'d': 1})
    SC = immutables.Map({'s': 1})
    proc = IdProc(401, 'worker')
    dbindex = FakeDbIndex(immutables.Map(
        {'main': cp_state.PickledDatabaseState(S1, RC, DC)}), G1, SC)
    pool = await make_pool(cp_pool.FixedPool, [proc], dbindex)
    _, a_state, _ = await pool.compile(
        'main', S1, G1, RC, DC, SC, b'req', 'START TRANSACTION -- A')
    # cache recompilation with a timeout (dbview.recompile_cached_queries)
    try:
        async with asyncio.timeout(0.0001):
            await pool.compile('main', S1, G1, RC, DC, SC, b'req', 'select 1')
    except TimeoutError:
        print('   recompile timed out (cancelled)')
    await asyncio.sleep(0.3)   # the worker finishes the abandoned request
    w = pool._workers[proc.pid]
    print('   server-side pointer is still the tx state:',
          w._last_pickled_state is a_state,
          '; worker LAST_STATE =', proc.module.LAST_STATE)
    try:
        await pool.compile_in_tx('main', S1, 1, a_state, 0, b'req', 'select 2', False)
        print('   in-tx compile OK')
    except Exception as e:
        print('   in-tx compile of connection A failed:', type(e).__name__, e)


async def aside2():
    print('ASIDE 2: multi-tenant eviction + failed sync')
    RC = immutables.Map({'r': ('q',)}); DC = immutables.Map({'d': 1})
    SC = immutables.Map({'s': 1})
    proc = IdProc(402, 'multitenant_worker')
    pool = await make_pool(cp_pool.MultiTenantPool, [proc], cache_size=2)
    st = {}
    for cid in (1, 2):
        st[cid] = (P(f'schema of tenant {cid}'), P(f'global of {cid}'))
        await pool.compile('main', st[cid][0], st[cid][1], RC, DC, SC,
                           b'req', 'select 1', client_id=cid)
    print('   worker holds tenants', sorted(proc.module.clients))
    bad = b'not a pickle'
    try:
        await pool.compile('main', bad, P('global of 3'), RC, DC, SC,
                           b'req', 'select 1', client_id=3)
    except Exception as e:
        print('   tenant 3 sync failed:', type(e).__name__)
    w = pool._workers[proc.pid]
    print('   server believes worker holds', sorted(w._cache),
          'pending invalidation', w._invalidated_clients,
          '; worker holds', sorted(proc.module.clients))
    for cid in (1, 2):
        try:
            await pool.compile('main', st[cid][0], st[cid][1], RC, DC, SC,
                               b'req', 'select 1', client_id=cid)
            print(f'   tenant {cid}: ok')
        except Exception as e:
            print(f'   tenant {cid}: {type(e).__name__}: {e}')


async def aside1b():
    print('ASIDE 1b: the cancelled request is another START TRANSACTION')
    S1 = P('user schema v1'); G1 = P('global v1')
    RC = immutables.Map({'r': ('q',)}); DC = immutables.Map({'d': 1})
    SC = immutables.Map({'s': 1})
    proc = IdProc(403, 'worker')
    dbindex = FakeDbIndex(immutables.Map(
        {'main': cp_state.PickledDatabaseState(S1, RC, DC)}), G1, SC)
    pool = await make_pool(cp_pool.FixedPool, [proc], dbindex)
    _, a_state, _ = await pool.compile(
        'main', S1, G1, RC, DC, SC, b'req', 'START TRANSACTION -- A')
    try:
        async with asyncio.timeout(0.0001):
            await pool.compile('main', S1, G1, RC, DC, SC, b'req',
                               'START TRANSACTION -- B')
    except TimeoutError:
        print('   B\'s START TRANSACTION cancelled while in flight')
    await asyncio.sleep(0.3)
    await pool.compile_in_tx('main', S1, 1, a_state, 0, b'req', 'select 2',
                             False)
    print('   A supplied state', pickle.loads(a_state).describe(),
          '; worker.compile_in_tx() used', proc.recorder.last['tx'])


async def main():
    await aside1()
    await aside1b()
    await aside2()

asyncio.run(main())
