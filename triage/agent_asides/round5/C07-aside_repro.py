# usage: /venv/bin/python demo.py <repo-root>
import sys, os, re, types, uuid
ROOT = os.path.abspath(sys.argv[1])
sys.path.insert(0, ROOT)
# --- stubs for the native pieces that are not built in this sandbox
_p = types.ModuleType('parsing')
for _n in ('Token', 'Nonterm', 'Precedence', 'Spec', 'Lr'):
    setattr(_p, _n, type(_n, (), {'__init__': lambda s, *a, **k: None}))
_m = types.ModuleType('edb._edgeql_parser')
_kw = open(os.path.join(ROOT, 'edb/edgeql-parser/src/keywords.rs')).read()
for _g in ('UNRESERVED', 'PARTIAL_RESERVED', 'FUTURE_RESERVED', 'CURRENT_RESERVED'):
    _mm = re.search(_g + r'_KEYWORDS[^=]*=\s*phf_set!\((.*?)\);', _kw, re.S)
    setattr(_m, _g.lower() + '_keywords',
            frozenset(re.findall(r'"([^"]+)"', _mm.group(1))))
for _n in ('ParserResult', 'Hasher', 'SourcePoint', 'Entry', 'OpaqueToken',
           'CSTNode', 'Production', 'Terminal', 'SyntaxError'):
    setattr(_m, _n, type(_n, (Exception,), {}))
_t = types.ModuleType('edb.common.turbo_uuid')
class _UUID(uuid.UUID):
    def __init__(self, v=None, **k):
        if isinstance(v, uuid.UUID):
            k = {'int': v.int}
        elif v is not None:
            k = {'bytes': bytes(v)} if isinstance(v, (bytes, bytearray)) else {'hex': str(v)}
        super().__init__(**k)
_t.UUID = _UUID
sys.modules.update({'parsing': _p, 'edb._edgeql_parser': _m,
                    'edb.common.turbo_uuid': _t})
import edb  # noqa
assert os.path.abspath(edb.__file__).startswith(ROOT), edb.__file__
from edb.edgeql import ast as qlast, qltypes as ft, parser as qlparser  # noqa
from edb.edgeql import compiler as qlcompiler  # noqa
from edb.pgsql import compiler as pgcompiler, codegen  # noqa
from edb.schema import (  # noqa
    schema as s_schema, name as sn, modules as s_mod, objtypes as s_objtypes,
    objects as so, scalars as s_scalars, links as s_links, properties as s_props,
    policies as s_pol, functions as s_func, operators as s_oper, expr as s_expr,
    pseudo, constraints as s_constr)
EXPRS = {}   # policy text -> hand-built qlast (there is no native parser here)
qlparser.parse_fragment = qlparser.parse_query = lambda t, *a, **k: EXPRS[t]
QN = sn.QualName.from_string
S = qlast.SelectQuery

class B:
    """A tiny std + user schema built with the real schema classes."""
    def __init__(self):
        s = s_schema.EMPTY_SCHEMA
        for cls, n in ((s_mod.Module, 'std'), (s_mod.Module, 'default'),
                       (pseudo.PseudoType, 'anytype'), (pseudo.PseudoType, 'anytuple')):
            s, _ = cls.create_in_schema(
                s, name=sn.UnqualName(n), builtin=n != 'default')
        self.s, self.std = s, {}
        std = self.std
        for cls, n in ((s_constr.Constraint, 'exclusive'), (s_links.Link, 'link'),
                       (s_props.Property, 'source'), (s_props.Property, 'target'),
                       (s_props.Property, 'property'), (s_props.Property, 'id'),
                       (s_scalars.ScalarType, 'bool'),
                       (s_scalars.ScalarType, 'uuid'), (s_scalars.ScalarType, 'str'),
                       (s_scalars.ScalarType, 'json')):
            self.s, std[n] = cls.create_in_schema(
                self.s, name=QN('std::' + n), builtin=True, bases=self._ol([]),
                ancestors=self._ol([]), abstract=cls is not s_scalars.ScalarType)
        b, self.uuid, self.str = std['bool'], std['uuid'], std['str']
        self.BaseObject = self.type('std::BaseObject', [], abstract=True)
        self.Object = self.type('std::Object', [self.BaseObject], abstract=True)
        self.type('std::FreeObject', [self.BaseObject], abstract=True)
        anyt = self.s.get_global(pseudo.PseudoType, 'anytype')
        self.oper('OR', [b, b], b, strict=False)
        self.oper('?=', [self.uuid, self.uuid], b, mod='OptionalType')
        self.oper('=', [self.str, self.str], b)
        self.oper('UNION', [anyt, anyt], anyt, mod='SetOfType')

    def _ol(self, items):
        return so.ObjectList.create(self.s, list(items))
    def _anc(self, bases):
        anc = [a for x in bases
               for a in (x,) + x.get_ancestors(self.s).objects(self.s)]
        return self._ol(dict.fromkeys(anc))

    def oper(self, name, ptypes, ret, strict=True, mod='SingletonType'):
        fq = sn.QualName('std', sn.get_specialized_name(
            QN('std::' + name), '|'.join(str(p.get_name(self.s)) for p in ptypes)))
        params = []
        for i, (pt, pn) in enumerate(zip(ptypes, 'lr')):
            self.s, p = s_func.Parameter.create_in_schema(
                self.s, num=i, type=pt, typemod=getattr(ft.TypeModifier, mod),
                kind=ft.ParameterKind.PositionalParam, name=sn.QualName(
                    'std', sn.get_specialized_name(sn.UnqualName(pn), str(fq))))
            params.append(p)
        self.s, _ = s_oper.Operator.create_in_schema(
            self.s, name=fq, params=params, return_type=ret, operator_kind='Infix',
            return_typemod=mod if mod == 'SetOfType' else 'SingletonType',
            volatility=ft.Volatility.Immutable, impl_is_strict=strict,
            from_expr=True, builtin=True, language=qlast.Language.SQL)

    def type(self, name, bases=None, abstract=False, **kw):
        """Object type; inherits the pointers/policies its bases have *now*."""
        bases = [self.Object] if bases is None else bases
        self.s, t = s_objtypes.ObjectType.create_in_schema(
            self.s, name=QN(name), bases=self._ol(bases), abstract=abstract,
            ancestors=self._anc(bases), builtin=name.startswith('std::'), **kw)
        ptrs, pols = {}, {}
        for b in bases:
            for pn, ptr in b.get_pointers(self.s).items(self.s):
                ptrs.setdefault(str(pn), []).append(ptr)
            for pol in b.get_access_policies(self.s).objects(self.s):
                pols.setdefault(pol.get_shortname(self.s), []).append(pol)
        for pn, pp in ptrs.items():
            self.ptr(t, pn, pp[0].get_target(self.s), base=pp)
        for short, pp in pols.items():
            self._mkpol(t, short, pp, expr=pp[0].get_expr(self.s),
                        action=pp[0].get_action(self.s),
                        access_kinds=pp[0].get_access_kinds(self.s))
        if name == 'std::BaseObject':
            self.ptr(t, 'id', self.uuid, base=[self.std['id']])
        return t

    def ptr(self, src, pname, target, base=(), required=False, many=False):
        cls = s_links.Link if target.is_object_type() else s_props.Property
        srcname, base = src.get_name(self.s), list(base)
        short = (base[0].get_shortname(self.s) if base
                 else QN(f'{srcname.module}::{pname}'))
        card = ft.SchemaCardinality.Many if many else ft.SchemaCardinality.One
        if base:
            required = pname == 'id' or base[0].get_required(self.s)
            card = base[0].get_cardinality(self.s) or card
        self.s, p = cls.create_in_schema(
            self.s, source=src, target=target, required=required,
            cardinality=card, bases=self._ol(base), ancestors=self._anc(base),
            owned=not base, builtin=srcname.module == 'std', name=sn.QualName(
                srcname.module, sn.get_specialized_name(short, str(srcname))))
        self.s = src.add_pointer(self.s, p)
        return p

    def _mkpol(self, subj, short, base, **fields):
        sname = subj.get_name(self.s)
        self.s, pol = s_pol.AccessPolicy.create_in_schema(
            self.s, subject=subj, owned=not base, bases=self._ol(base),
            ancestors=self._anc(base), name=sn.QualName(
                sname.module, sn.get_specialized_name(short, str(sname))),
            **fields)
        self.s = subj.add_classref(self.s, 'access_policies', pol)

    def policy(self, subj, pname, marker):
        """access policy <pname> allow select using (.name = '<marker>')"""
        EXPRS[marker] = qlast.BinOp(op='=', left=path('name', partial=True),
                                    right=qlast.Constant.string(marker))
        self._mkpol(
            subj, QN(f'default::{pname}'), [], action=ft.AccessPolicyAction.Allow,
            access_kinds=[ft.AccessKind.Select], expr=s_expr.Expression(
                text=marker, refs=so.ObjectSet.create(self.s, [])))

def path(*steps, partial=False):
    out = []
    for i, st in enumerate(steps):
        if i == 0 and not partial:
            out.append(qlast.ObjectRef(module='default', name=st))
        elif st.startswith('[is '):
            out.append(qlast.TypeIntersection(type=qlast.TypeName(
                maintype=qlast.ObjectRef(module='default', name=st[4:-1]))))
        else:
            out.append(qlast.Ptr(name=st))
    return qlast.Path(steps=out, partial=partial)

def compile_sql(b, q):
    ir = qlcompiler.compile_ast_to_ir(q, b.s)
    return ir, pgcompiler.compile_ir_to_sql_tree(
        ir, output_format=pgcompiler.OutputFormat.NATIVE, versioned_stdlib=False).ast

def pieces(tree):
    ctes, tree.ctes = list(tree.ctes or []), []
    out = [(c.name, codegen.generate_source(c.query)) for c in ctes]
    out.append(('<main>', codegen.generate_source(tree)))
    tree.ctes = ctes
    return out

def audit(b, tree, markers):
    # A SQL piece reads type X "raw" if it mentions X's table (or a CTE that
    # reads X raw) without carrying all of X's policy conditions itself.
    ps, bad = pieces(tree), []
    for t, marks in markers.items():
        raw, changed = {}, True
        while changed:
            changed = False
            for name, text in ps:
                if name in raw or all(f"'{m}'" in text for m in marks):
                    continue
                src = [f'table edgedbpub."{t.id}"'] if f'"{t.id}"' in text else []
                src += [r for r in raw if f'"{r}"' in text]
                if src:
                    raw[name], changed = src[0], True
        chain = ['<main>'] if '<main>' in raw else []
        while chain and chain[-1] in raw:
            chain.append(raw[chain[-1]])
        if chain:
            bad.append(f'{t.get_name(b.s)} rows are read without the policy '
                       f'condition {marks}: ' + ' -> '.join(chain))
    return bad
from edb.schema import types as s_types
b = B()
N = b.type('default::Named', abstract=True)
b.ptr(N, 'name', b.str)
A = b.type('default::A', [N])
b.policy(A, 'pa', 'vis_a')
Bt = b.type('default::B', [N])
Z = b.type('default::Z', [A, Bt])
U = b.type('default::U')
b.ptr(U, 'ml', N, many=True)
V = b.type('default::V')
EXPRS['ALIAS_AA'] = S(result=path('A'))
b.s, AA = s_objtypes.ObjectType.create_in_schema(
    b.s, name=QN('default::AA'), bases=b._ol([A]), ancestors=b._anc([A]),
    expr=s_expr.Expression(text='ALIAS_AA', refs=so.ObjectSet.create(b.s, [])),
    expr_type=s_types.ExprType.Select)
def tn(n): return qlast.TypeName(maintype=qlast.ObjectRef(module='default', name=n))
union = qlast.TypeOp(left=tn('A'), op='|', right=tn('B'))
typeof_aa = qlast.TypeOf(expr=path('AA'))
qs = {
 'select U.ml[is A | B]': S(result=qlast.Path(steps=[qlast.ObjectRef(module='default', name='U'), qlast.Ptr(name='ml'), qlast.TypeIntersection(type=union)])),
 'select (V[is typeof AA], AA)': S(result=qlast.Tuple(elements=[qlast.Path(steps=[qlast.ObjectRef(module='default', name='V'), qlast.TypeIntersection(type=typeof_aa)]), path('AA')])),
 'select (AA, V[is typeof AA])': S(result=qlast.Tuple(elements=[path('AA'), qlast.Path(steps=[qlast.ObjectRef(module='default', name='V'), qlast.TypeIntersection(type=typeof_aa)])])),
}
for name, q in qs.items():
    ir, tree = compile_sql(b, q)
    print(name, sorted((str(ir.schema.get_by_id(k[0]).get_name(ir.schema)), k[1]) for k in ir.type_rewrites), audit(b, tree, {A: ['vis_a']}))
