"""Reproduction for ASIDE.md item 1 on the UNCHANGED tree.
Usage: /venv/bin/python aside_set_global.py <repo-root>   (re-uses the harness of 1/demo.py)"""
import dataclasses
import importlib.util
import os
import sys

here = os.path.dirname(os.path.abspath(__file__))
spec = importlib.util.spec_from_file_location(
    'c08_demo1', os.path.join(here, '1', 'demo.py'))
d = importlib.util.module_from_spec(spec)
spec.loader.exec_module(d)          # installs stubs, imports edb from argv[1]
from edb.edgeql import ast as qlast, qltypes  # noqa: E402

schema = d.build_std()
schema = d.ddl(schema, qlast.CreateObjectType(
    name=d.ref('Foo', 'default'), bases=[], commands=[
        qlast.CreateConcreteProperty(name=d.ref('name'), target=d.tn('str'),
                                     is_required=False, bases=[])]))
schema = d.ddl(schema, qlast.CreateGlobal(
    name=d.ref('g', 'default'), target=d.tn('str'), cardinality=None))
val = qlast.SelectQuery(
    result=qlast.Path(steps=[d.update_foo(), qlast.Ptr(name='name')]),
    limit=qlast.Constant.integer(1))
stmt = qlast.ConfigSet(scope=qltypes.ConfigScope.GLOBAL,
                       name=d.ref('g', 'default'), expr=val)
print(' '.join(d._orig_gen(stmt).split()))
for notebook in (False, True):
    ctx = dataclasses.replace(d.make_ctx(schema), notebook=notebook)
    group = d.C._try_compile_ast(ctx=ctx, statements=[stmt], source=None)
    sql = b' '.join(u.sql for u in group).decode()
    print(f'notebook={notebook}: capabilities={group.capabilities!r}; '
          f'generated SQL contains UPDATE edgedbpub...: '
          f'{"UPDATE \n" in sql or "UPDATE " in sql}')
