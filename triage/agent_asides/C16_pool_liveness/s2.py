import sys, asyncio
import os; sys.path.insert(0, os.path.dirname(os.path.abspath(__file__)))
import harness

class Conn:
    n = 0
    def __init__(self, db):
        Conn.n += 1; self.db = db; self.id = Conn.n
    def __repr__(self): return f'<Conn {self.db}#{self.id}>'

async def main(poolmod, config, loop):
    async def connect(db):
        await asyncio.sleep(0.002)
        return Conn(db)
    async def disconnect(c):
        await asyncio.sleep(0.001)
    pool = poolmod.Pool(connect=connect, disconnect=disconnect, max_capacity=2)
    got = {}
    async def holder(db, hold):
        c = await pool.acquire(db)
        got[db] = loop.time()
        await asyncio.sleep(hold)
        pool.release(db, c)
    def dump():
        print('t=', loop.time(), 'starving', pool._is_starving, 'cap', pool._cur_capacity)
        for b in pool._blocks.values():
            print(' ', b.dbname, 'conns', len(b.conns), 'pending', b.pending_conns, 'waiters', b.count_waiters(), 'quota', b.quota, 'avg', b.nwaiters_avg.avg())
    tasks = [loop.create_task(holder(db, 0.03)) for db in 'abcd']
    done, pending = await asyncio.wait(tasks, timeout=20)
    assert not pending
    dump()
    await asyncio.sleep(5)
    dump()
    tasks = [loop.create_task(holder(db, 0.03)) for db in sys.argv[2]]
    done, pending = await asyncio.wait(tasks, timeout=20)
    dump()
    print('pending', len(pending))
    for t in pending: t.cancel()
    return 1 if pending else 0

sys.exit(harness.run(sys.argv[1], main))
