import sys, asyncio
import os; sys.path.insert(0, os.path.dirname(os.path.abspath(__file__)))
import harness
class Conn:
    def __init__(self, db): self.db = db

async def main(poolmod, config, loop):
    async def connect(db):
        await asyncio.sleep(0.002); return Conn(db)
    async def disconnect(c):
        await asyncio.sleep(0.001)
    which = sys.argv[2]
    if which == 'tight':
        pool = poolmod.Pool(connect=connect, disconnect=disconnect, max_capacity=1)
        n = 0; stop = False
        async def looper():
            nonlocal n
            while not stop:
                c = await pool.acquire('a'); n += 1
                await asyncio.sleep(0.005)
                pool.release('a', c)          # no yield before re-acquiring
        got = []
        async def w():
            c = await pool.acquire('a'); got.append(loop.time()); pool.release('a', c)
        lt = loop.create_task(looper())
        await asyncio.sleep(0.02)
        wt = loop.create_task(w())
        await asyncio.wait([wt], timeout=5)
        print('tight loop: waiter served?', wt.done(), 'looper acquisitions', n)
        stop = True
        await asyncio.wait([wt, lt], timeout=1)
        return 0
    if which == 'discard':
        # cap=2: x uses two conns, then both go idle; tick shrinks x (quota 0, nobody starving) -> discards in flight
        pool = poolmod.Pool(connect=connect, disconnect=disconnect, max_capacity=2)
        async def disconnect_slow(c):
            await asyncio.sleep(0.004)
        pool._disconnect_cb = disconnect_slow
        async def client(db, hold):
            c = await pool.acquire(db); await asyncio.sleep(hold); pool.release(db, c)
        # w keeps ticks running: holds a conn... need total<cap. use w on db 'x' itself?
        t1 = loop.create_task(client('x', 0.003))
        t2 = loop.create_task(client('v', 0.003))
        await asyncio.sleep(0.006)
        # both idle now; a long request on 'x' keeps ticks going
        t3 = loop.create_task(client('x', 0.5))
        for i in range(40):
            await asyncio.sleep(0.001)
            print(round(loop.time(),4), 'cap', pool._cur_capacity, {b.dbname:(len(b.conns), len(b.conn_stack), b.quota) for b in pool._blocks.values()})
        return 0

sys.exit(harness.run(sys.argv[1], main))
