import sys, asyncio
import os; sys.path.insert(0, os.path.dirname(os.path.abspath(__file__)))
import harness

class Conn:
    n = 0
    def __init__(self, db):
        Conn.n += 1; self.db = db; self.id = Conn.n
    def __repr__(self): return f'<Conn {self.db}#{self.id}>'

async def main(poolmod, config, loop):
    async def connect(db):
        await asyncio.sleep(0.002)
        if db == 'y':
            raise ConnectionError('y is down')
        return Conn(db)
    async def disconnect(c):
        await asyncio.sleep(0.001)
    variant = sys.argv[2]
    pool = poolmod.Pool(connect=connect, disconnect=disconnect, max_capacity=1 if variant == '1' else 2)
    res = {}
    async def holder(db, hold):
        try:
            c = await pool.acquire(db)
        except Exception as e:
            res[db] = repr(e); return
        res[db] = loop.time()
        await asyncio.sleep(hold)
        pool.release(db, c)
    def dump():
        print('t=', loop.time(), 'starving', pool._is_starving, 'cap', pool._cur_capacity)
        for b in pool._blocks.values():
            print(' ', b.dbname, 'conns', len(b.conns), 'pending', b.pending_conns, 'waiters', b.count_waiters(), 'quota', b.quota, 'avg', b.nwaiters_avg.avg())
    if variant == '1':
        tasks = [loop.create_task(holder('x', 0.005))]
        await asyncio.sleep(0.003)
        tasks += [loop.create_task(holder('y', 0.005))]
        await asyncio.sleep(0.0001)
        tasks += [loop.create_task(holder('z', 0.005))]
    else:
        tasks = [loop.create_task(holder('x', 0.001))]
        await asyncio.sleep(0.0035)   # x's conn is idle now
        tasks += [loop.create_task(holder('y', 0.005))]
        await asyncio.sleep(0.0001)
        tasks += [loop.create_task(holder('z', 0.005))]
    done, pending = await asyncio.wait(tasks, timeout=20)
    dump()
    print(res, 'pending', len(pending))
    for t in pending: t.cancel()
    return 1 if pending else 0

sys.exit(harness.run(sys.argv[1], main))
