import sys, asyncio
import os; sys.path.insert(0, os.path.dirname(os.path.abspath(__file__)))
import harness
class Conn:
    def __init__(self, db): self.db = db

async def main(poolmod, config, loop):
    async def connect(db):
        await asyncio.sleep(0.002); return Conn(db)
    async def disconnect(c):
        await asyncio.sleep(0.004)
    pool = poolmod.Pool(connect=connect, disconnect=disconnect, max_capacity=2)
    got = {}
    async def client(db, hold):
        c = await pool.acquire(db); got[db] = loop.time(); await asyncio.sleep(hold); pool.release(db, c)
    t1 = loop.create_task(client('v', 0.003))
    await asyncio.sleep(0.006)
    t3 = loop.create_task(client('x', 0.0065))   # x: connects at .008, releases at .0145?
    await asyncio.sleep(0.0055)  # t=0.0115: v's idle conn is being discarded by the tick at t=0.010 (nobody to give it to)
    print(round(loop.time(),4), 'cap', pool._cur_capacity, {b.dbname:(len(b.conns), len(b.conn_stack), b.quota) for b in pool._blocks.values()})
    ty = loop.create_task(client('y', 0.003))
    done, pending = await asyncio.wait([ty, t3, t1], timeout=10)
    print(round(loop.time(),4), got, 'pending', len(pending), 'cap', pool._cur_capacity, 'starving', pool._is_starving, {b.dbname:(len(b.conns), len(b.conn_stack), b.count_waiters(), b.quota) for b in pool._blocks.values()})
    return 0
sys.exit(harness.run(sys.argv[1], main))
