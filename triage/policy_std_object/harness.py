"""Demo harness (test scaffolding, NOT repository code).

What is REAL: edb.schema.* (schema objects, derive_subtype / inheritance
machinery used while compiling), edb.edgeql.compiler (full EdgeQL -> IR
compilation including policies.py / setgen.py / stmtctx.py), edb.ir.*,
edb.pgsql.compiler (IR -> SQL tree) and edb.pgsql.codegen.

What is a STUB / hand-made:
  * edb._edgeql_parser, the third-party `parsing` package and
    edb.common.turbo_uuid are replaced by empty stand-ins (native
    extensions are not built here), so there is no EdgeQL *parser*:
    queries and policy bodies are hand-built qlast trees, and
    s_expr.Expression.parse() is patched to look the tree up by text.
  * the standard library cannot be bootstrapped without the parser, so a
    miniature "std" (bool/uuid/str/json scalars, BaseObject/Object/
    FreeObject, std::link/property/source/target, std::exclusive and the
    operators OR, AND, NOT, ?=, =, UNION) and the user schema are created
    with <SchemaClass>.create_in_schema().  Inheritance of pointers and
    access policies onto subtypes is emulated by World._inherit_*().
  * edb.pgsql.common.SCHEMA_SUFFIX is preset (no VERSION build metadata).
"""
import sys, types, uuid, importlib.abc, importlib.machinery


def install_stubs(root):
    sys.path.insert(0, root)
    m = types.ModuleType('edb._edgeql_parser')
    for a in ('unreserved_keywords', 'future_reserved_keywords',
              'current_reserved_keywords', 'partial_reserved_keywords'):
        setattr(m, a, frozenset())
    sys.modules['edb._edgeql_parser'] = m

    class _Mod(types.ModuleType):
        def __getattr__(self, name):
            if name.startswith('__'):
                raise AttributeError(name)
            cls = type(name, (), {})
            setattr(self, name, cls)
            return cls

    class _Finder(importlib.abc.MetaPathFinder, importlib.abc.Loader):
        def find_spec(self, fullname, path, target=None):
            if fullname == 'parsing' or fullname.startswith('parsing.'):
                return importlib.machinery.ModuleSpec(
                    fullname, self, is_package=True)
            return None

        def create_module(self, spec):
            mod = _Mod(spec.name)
            mod.__path__ = []
            return mod

        def exec_module(self, module):
            pass
    sys.meta_path.insert(0, _Finder())

    t = types.ModuleType('edb.common.turbo_uuid')

    class UUID(uuid.UUID):
        def __init__(self, v):
            if isinstance(v, uuid.UUID):
                super().__init__(int=v.int)
            elif isinstance(v, (bytes, bytearray)):
                super().__init__(bytes=bytes(v))
            else:
                super().__init__(v)
    t.UUID = UUID
    sys.modules['edb.common.turbo_uuid'] = t


class World:
    """A tiny schema builder + compile driver."""

    def __init__(self):
        from edb.schema import schema as s_schema, name as sn
        from edb.schema import modules as s_mod, scalars as s_scalars
        from edb.schema import expr as s_expr
        self.sn = sn
        self.exprs = {}   # policy/computed expression text -> qlast
        schema = s_schema.EMPTY_SCHEMA
        for m in ('std', 'default'):
            schema, _ = s_mod.Module.create_in_schema(
                schema, name=sn.UnqualName(m), builtin=(m == 'std'))
        self.schema = schema
        self.scalars = {}
        for n in ('bool', 'uuid', 'str', 'int64', 'json', 'bytes'):
            self.schema, self.scalars[n] = (
                s_scalars.ScalarType.create_in_schema(
                    self.schema, name=sn.QualName('std', n), builtin=True))
        from edb.schema import constraints as s_constr
        self.schema, _ = s_constr.Constraint.create_in_schema(
            self.schema, name=sn.QualName('std', 'exclusive'),
            abstract=True, builtin=True)
        self._mk_operators()
        from edb.schema import properties as s_props, links as s_links
        from edb.schema import objects as so
        self.schema, gprop = s_props.Property.create_in_schema(
            self.schema, name=sn.QualName('std', 'property'),
            abstract=True, builtin=True)
        self.schema, glink = s_links.Link.create_in_schema(
            self.schema, name=sn.QualName('std', 'link'),
            abstract=True, builtin=True)
        for n in ('source', 'target'):
            self.schema, _ = s_props.Property.create_in_schema(
                self.schema, name=sn.QualName('std', n),
                abstract=True, builtin=True,
                bases=so.ObjectList.create(self.schema, [gprop]),
                ancestors=so.ObjectList.create(self.schema, [gprop]))
        self.generic = {s_props.Property: gprop, s_links.Link: glink}
        self.BaseObject = self.mk_type(
            'BaseObject', bases=(), abstract=True, module='std')
        self.mk_prop(self.BaseObject, 'id', self.scalars['uuid'],
                     required=True)
        self.Object = self.mk_type(
            'Object', bases=(self.BaseObject,), abstract=True, module='std')
        self.FreeObject = self.mk_type(
            'FreeObject', bases=(self.BaseObject,), module='std')

        # The EdgeQL parser is unavailable: expressions stored in the
        # schema are looked up by their text in a table of hand-made ASTs.
        world = self

        def parse(self_expr):
            return world.exprs[self_expr.text]
        s_expr.Expression.parse = parse

    # -- std operators ----------------------------------------------------
    def _mk_operators(self):
        from edb.schema import operators as s_oper, functions as s_func
        from edb.schema import pseudo as s_pseudo
        from edb.edgeql import qltypes as ft
        sn = self.sn
        b = self.scalars['bool']
        self.schema, anyt = s_pseudo.PseudoType.create_in_schema(
            self.schema, name=sn.UnqualName('anytype'))
        S, O = ft.TypeModifier.SingletonType, ft.TypeModifier.OptionalType
        M = ft.TypeModifier.SetOfType
        specs = [
            ('UNION', ft.OperatorKind.Infix, [(anyt, M), (anyt, M)],
             'UNION ALL', anyt, M),
            ('OR', ft.OperatorKind.Infix, [(b, S), (b, S)], 'OR'),
            ('AND', ft.OperatorKind.Infix, [(b, S), (b, S)], 'AND'),
            ('NOT', ft.OperatorKind.Prefix, [(b, S)], 'NOT'),
            ('?=', ft.OperatorKind.Infix, [(anyt, O), (anyt, O)],
             'IS NOT DISTINCT FROM'),
            ('=', ft.OperatorKind.Infix, [(anyt, S), (anyt, S)], '='),
        ]
        for name, kind, params, sqlop, *ret in specs:
            rtype, rmod = ret if ret else (b, S)
            shortname = sn.QualName('std', name)
            quals = [f'{i}:{t.get_name(self.schema)}'
                     for i, (t, _) in enumerate(params)]
            fq = sn.QualName('std', sn.get_specialized_name(shortname, *quals))
            plist = []
            for i, (t, tm) in enumerate(params):
                pname = sn.QualName('std', sn.get_specialized_name(
                    sn.UnqualName('lr'[i] if len(params) > 1 else 'v'),
                    str(fq)))
                self.schema, p = s_func.Parameter.create_in_schema(
                    self.schema, name=pname, num=i, type=t, typemod=tm,
                    kind=ft.ParameterKind.PositionalParam)
                plist.append(p)
            self.schema, _ = s_oper.Operator.create_in_schema(
                self.schema, name=fq, operator_kind=kind,
                params=plist, return_type=rtype, return_typemod=rmod,
                volatility=ft.Volatility.Immutable,
                from_operator=(sqlop,), builtin=True,
            )

    # -- user schema ------------------------------------------------------
    def mk_type(self, name, bases=None, abstract=False, module='default'):
        from edb.schema import objtypes as s_objtypes, objects as so
        sn = self.sn
        if bases is None:
            bases = (self.Object,)
        ancestors = list(bases)
        for base in bases:
            for a in base.get_ancestors(self.schema).objects(self.schema):
                if a not in ancestors:
                    ancestors.append(a)
        self.schema, t = s_objtypes.ObjectType.create_in_schema(
            self.schema, name=sn.QualName(module, name),
            abstract=abstract, builtin=(module == 'std'),
            bases=so.ObjectList.create(self.schema, list(bases)),
            ancestors=so.ObjectList.create(self.schema, ancestors),
        )
        # emulate inheritance of pointers and access policies
        for base in bases:
            for ptr in base.get_pointers(self.schema).objects(self.schema):
                self._inherit_ptr(t, ptr)
            for pol in base.get_access_policies(
                    self.schema).objects(self.schema):
                self._inherit_policy(t, pol)
        return t

    def _ptr_name(self, source, name):
        sn = self.sn
        mod = source.get_name(self.schema).module
        return sn.QualName(mod, sn.get_specialized_name(
            sn.QualName(mod, name),
            str(source.get_name(self.schema))))

    def mk_prop(self, source, name, target, required=False):
        from edb.schema import properties as s_props
        from edb.edgeql import qltypes as ft
        from edb.schema import objects as so
        g = self.generic[s_props.Property]
        self.schema, p = s_props.Property.create_in_schema(
            self.schema, name=self._ptr_name(source, name),
            source=source, target=target, required=required,
            cardinality=ft.SchemaCardinality.One, owned=True,
            bases=so.ObjectList.create(self.schema, [g]),
            ancestors=so.ObjectList.create(self.schema, [g]))
        self.schema = source.add_classref(self.schema, 'pointers', p)
        return p

    def mk_link(self, source, name, target, required=False, multi=False):
        from edb.schema import links as s_links
        from edb.edgeql import qltypes as ft
        from edb.schema import objects as so
        g = self.generic[s_links.Link]
        self.schema, l = s_links.Link.create_in_schema(
            self.schema, name=self._ptr_name(source, name),
            source=source, target=target, required=required,
            cardinality=(ft.SchemaCardinality.Many if multi
                         else ft.SchemaCardinality.One), owned=True,
            bases=so.ObjectList.create(self.schema, [g]),
            ancestors=so.ObjectList.create(self.schema, [g]))
        self.schema = source.add_classref(self.schema, 'pointers', l)
        return l

    def _inherit_ptr(self, child, ptr):
        from edb.schema import objects as so
        name = str(ptr.get_shortname(self.schema).name)
        if child.maybe_get_ptr(self.schema, self.sn.UnqualName(name)):
            return   # diamond inheritance: already inherited
        kw = dict(
            name=self._ptr_name(child, name), source=child,
            target=ptr.get_target(self.schema),
            required=ptr.get_required(self.schema),
            cardinality=ptr.get_cardinality(self.schema),
            bases=so.ObjectList.create(self.schema, [ptr]),
            ancestors=so.ObjectList.create(
                self.schema,
                [ptr] + list(ptr.get_ancestors(self.schema).objects(
                    self.schema))),
        )
        self.schema, p = type(ptr).create_in_schema(self.schema, **kw)
        self.schema = child.add_classref(self.schema, 'pointers', p)

    def mk_policy(self, subject, name, qlexpr, *, allow=True, kinds=None,
                  text=None):
        from edb.schema import policies as s_policies, expr as s_expr
        from edb.schema import objects as so
        from edb.edgeql import qltypes as ft
        sn = self.sn
        text = text or f'<policy {name} on {subject.get_name(self.schema)}>'
        self.exprs[text] = qlexpr
        kinds = kinds or [ft.AccessKind.Select]
        pname = sn.QualName('default', sn.get_specialized_name(
            sn.QualName('default', name), str(subject.get_name(self.schema))))
        self.schema, pol = s_policies.AccessPolicy.create_in_schema(
            self.schema, name=pname, subject=subject,
            expr=s_expr.Expression(
                text=text, refs=so.ObjectSet.create(self.schema, [])),
            action=(ft.AccessPolicyAction.Allow if allow
                    else ft.AccessPolicyAction.Deny),
            access_kinds=kinds, owned=True)
        self.schema = subject.add_classref(
            self.schema, 'access_policies', pol)
        for child in subject.descendants(self.schema):
            self._inherit_policy(child, pol)
        return pol

    def _inherit_policy(self, child, pol):
        from edb.schema import objects as so
        sn = self.sn
        name = str(pol.get_shortname(self.schema).name)
        pname = sn.QualName('default', sn.get_specialized_name(
            sn.QualName('default', name), str(child.get_name(self.schema))))
        if self.schema.get(pname, None) is not None:
            return
        self.schema, p = type(pol).create_in_schema(
            self.schema, name=pname, subject=child,
            expr=pol.get_expr(self.schema),
            action=pol.get_action(self.schema),
            access_kinds=pol.get_access_kinds(self.schema),
            bases=so.ObjectList.create(self.schema, [pol]),
            ancestors=so.ObjectList.create(
                self.schema,
                [pol] + list(pol.get_ancestors(self.schema).objects(
                    self.schema))),
        )
        self.schema = child.add_classref(self.schema, 'access_policies', p)

    # -- compile ----------------------------------------------------------
    def compile_ir(self, qltree, **opts):
        from edb.edgeql import compiler as qlcompiler
        return qlcompiler.compile_ast_to_ir(
            qltree, self.schema,
            options=qlcompiler.CompilerOptions(
                modaliases={None: 'default'}, **opts))

    def compile_sql(self, qltree, **opts):
        from edb.pgsql import compiler as pgcompiler
        from edb.pgsql import common as pgcommon
        # build metadata (VERSION) is absent in this checkout
        if pgcommon.SCHEMA_SUFFIX is None:
            pgcommon.SCHEMA_SUFFIX = '_vX'
        ir = self.compile_ir(qltree, **opts)
        res = pgcompiler.compile_ir_to_sql_tree(
            ir, output_format=pgcompiler.OutputFormat.JSON,
            versioned_stdlib=False)
        return ir, res.ast

    def sql_text(self, sqltree):
        from edb.pgsql import codegen
        return codegen.generate_source(sqltree, pretty=True)


# -- qlast helpers --------------------------------------------------------
def ref(name):
    from edb.edgeql import ast as qlast
    return qlast.ObjectRef(name=name)


def path(*steps, partial=False):
    """path('Foo', 'bar', '<owner', ('is', 'Baz'))"""
    from edb.edgeql import ast as qlast
    out = []
    for i, s in enumerate(steps):
        if isinstance(s, tuple) and s[0] == 'is':
            out.append(qlast.TypeIntersection(
                type=qlast.TypeName(maintype=ref(s[1]))))
        elif isinstance(s, str) and i == 0 and not partial:
            out.append(ref(s))
        elif isinstance(s, str) and s.startswith('<'):
            out.append(qlast.Ptr(name=s[1:], direction='<'))
        elif isinstance(s, str):
            out.append(qlast.Ptr(name=s))
        else:
            out.append(s)
    return qlast.Path(steps=out, partial=partial)


def select(result, where=None, aliases=None):
    from edb.edgeql import ast as qlast
    return qlast.SelectQuery(result=result, where=where, aliases=aliases)


# -- SQL inspection -------------------------------------------------------
def unguarded_table_reads(sqltree, objtype):
    """Return descriptions of reads of objtype's own table that are not
    below a SELECT carrying a WHERE clause *inside a type CTE*.

    The pgast tree is walked from the top-level statement; CTEs are entered
    through the range vars that reference them (so a plain inheritance CTE
    that is only referenced from underneath the policy filter counts as
    guarded, while the same table referenced from anywhere else does not).
    """
    from edb.pgsql import ast as pgast
    from edb.common import ast as cast
    bad = []

    def walk(node, guarded, in_cte, trail, depth=0):
        if depth > 200:
            return
        if isinstance(node, pgast.CommonTableExpr):
            walk(node.query, guarded, True,
                 trail + [f'CTE {node.name}'], depth + 1)
            return
        if isinstance(node, pgast.Relation):
            tr = node.type_or_ptr_ref
            if (tr is not None and getattr(tr, 'id', None) == objtype.id
                    and not guarded):
                bad.append(' > '.join(trail + [f'TABLE {node.name}']))
            return
        if isinstance(node, pgast.SelectStmt):
            has_where = node.where_clause is not None
            g = guarded or (has_where and in_cte)
            t2 = trail + ['SELECT' + (' [WHERE]' if has_where else '')]
            for f, v in cast.iter_fields(node, include_meta=False):
                if f == 'ctes':
                    continue
                walk(v, g, in_cte, t2, depth + 1)
            return
        if isinstance(node, pgast.Base):
            for f, v in cast.iter_fields(node, include_meta=False):
                walk(v, guarded, in_cte, trail, depth + 1)
        elif isinstance(node, (list, tuple, set, frozenset)):
            for v in node:
                walk(v, guarded, in_cte, trail, depth + 1)
        elif isinstance(node, dict):
            for v in node.values():
                walk(v, guarded, in_cte, trail, depth + 1)

    walk(sqltree, False, False, [])
    return bad
