import sys, traceback
import harness; harness.install_stubs(next((a for a in sys.argv[1:] if not a.startswith('-')), '/tmp/wt3_C07'))
from harness import *
from edb.edgeql import ast as qlast
w = World()
F = qlast.Constant.boolean(False)
Foo = w.mk_type('Foo')
Sec = w.mk_type('Secret')
w.mk_policy(Sec, 'ps', F)
objid = qlast.Path(steps=[qlast.ObjectRef(module='std', name='Object'), qlast.Ptr(name='id')])
w.mk_policy(Foo, 'p', qlast.BinOp(op='?=', left=objid, right=objid))
types = dict(Foo=Foo, Secret=Sec)
O = qlast.Path(steps=[qlast.ObjectRef(module='std', name='Object')])
qs = {
 'select Object': select(O),
 'with X := Foo select Object': select(O, aliases=[qlast.AliasedExpr(alias='X', expr=path('Foo'))]),
 'with X := Object select Foo': select(path('Foo'), aliases=[qlast.AliasedExpr(alias='X', expr=O)]),
}
for name, q in qs.items():
    try:
        ir, sql = w.compile_sql(q)
        res = {n: unguarded_table_reads(sql, t) for n, t in types.items()}
        res = {n: v for n, v in res.items() if v}
        print('OK  ', name, res or '')
        if '-v' in sys.argv: print(w.sql_text(sql))
    except Exception as e:
        print('FAIL', name, type(e).__name__, str(e)[:200])
        if '-t' in sys.argv: traceback.print_exc()
