"""Triage (never used by a check): edb/server/compiler_pool/worker.py
`__sync__` stored the new per-database state in DBS *before* unpickling the
global schema / instance config.  When one of those fails to unpickle the
call ends in FailedStateSync, the pool (rightly) keeps its old belief about
the worker -- but the worker already holds the new user schema.  The next
request that supplies the old user schema again is "unchanged" for the pool,
nothing is sent, and the worker compiles with the newer schema.

Runs the real function body (extracted with ast, so that the compiler package
need not be imported) with a minimal stand-in for `state`.

usage: worker_sync_not_atomic.py [repo-root]     exit 0 = all-or-nothing
"""
import ast, collections, pickle, sys
import immutables

root = sys.argv[1] if len(sys.argv) > 1 else '/repo'
src = open(f'{root}/edb/server/compiler_pool/worker.py').read()
tree = ast.parse(src)
fn = [n for n in tree.body if isinstance(n, ast.FunctionDef)
      and n.name == '__sync__'][0]


class state:
    DatabaseState = collections.namedtuple(
        'DatabaseState',
        'name user_schema reflection_cache database_config')

    class FailedStateSync(Exception):
        pass


ns = {'state': state, 'pickle': pickle, 'Optional': __import__('typing').Optional,
      'DBS': immutables.Map(), 'GLOBAL_SCHEMA': None, 'INSTANCE_CONFIG': None}
exec(compile(ast.Module(body=[fn], type_ignores=[]), 'worker.py', 'exec'), ns)
sync = ns['__sync__']
P = lambda x: pickle.dumps(x, -1)

sync('a', P('S1'), P('R'), P('G1'), P('C'), P('I'))
before = (ns['DBS']['a'].user_schema, ns['GLOBAL_SCHEMA'])
try:
    sync('a', P('S2'), None, b'corrupt pickle', None, None)
except state.FailedStateSync:
    pass
else:
    print('unexpected: no FailedStateSync')
    sys.exit(2)
after = (ns['DBS']['a'].user_schema, ns['GLOBAL_SCHEMA'])
print('state before the failed sync:', before)
print('state after the failed sync: ', after)
if after != before:
    print('FAIL: a failed sync left the worker half-updated (the pool does '
          'not know: it keeps believing', before, ')')
    sys.exit(1)
print('ok: a failed sync changes nothing')
