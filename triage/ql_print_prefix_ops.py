#!/venv/bin/python
"""Triage for C01: two printer losses found by reading (pointed out by a seed
agent as asides), shown on the real printer (native parser stubbed).

 1. <required T>x : the grammar builds TypeCast(cardinality_mod=Required)
    (grammar/expressions.py), the printer only knows Optional.
 2. (-a) ^ 2 : BinOp('^', UnaryOp('-', a), 2) is printed `(-a ^ 2)`; in the
    grammar P_POW_OP binds tighter than P_UMINUS (precedence.py lists
    P_UMINUS before P_POW_OP), so that text is -(a ^ 2).  Same for any
    prefix operator as the left operand of a tighter infix operator, e.g.
    (NOT a) ?? b.

exit 0: both texts keep the structure; exit 1 otherwise.
usage: ql_print_prefix_ops.py [repo_root]
"""
import os, re, sys
sys.path.insert(0, os.path.dirname(os.path.abspath(__file__)))
import ql_printer

repo = sys.argv[1] if len(sys.argv) > 1 else '/repo'
qlast, codegen = ql_printer.load(repo)
bad = 0

a = qlast.Path(steps=[qlast.ObjectRef(name='a')])
tc = qlast.TypeCast(
    expr=a, type=qlast.TypeName(maintype=qlast.ObjectRef(name='int64')),
    cardinality_mod=qlast.CardinalityModifier.Required)
txt = codegen.generate_source(tc)
print('TypeCast(required):', txt)
if 'required' not in txt.lower():
    print('  LOST: the REQUIRED modifier is not printed')
    bad += 1

two = qlast.Constant.integer(2)
pw = qlast.BinOp(left=qlast.UnaryOp(op='-', operand=a), op='^', right=two)
txt = codegen.generate_source(pw)
print('BinOp(^, UnaryOp(-, a), 2):', txt)
if re.search(r'\(\s*-\s*a\s*\^', txt):
    print('  REGROUPS: `-a ^ 2` parses as -(a ^ 2) (P_POW_OP > P_UMINUS)')
    bad += 1
co = qlast.BinOp(left=qlast.UnaryOp(op='NOT', operand=a), op='??',
                 right=qlast.Constant.boolean(True))
txt = codegen.generate_source(co)
print('BinOp(??, UnaryOp(NOT, a), true):', txt)
if re.search(r'^\(\s*NOT\b', txt):
    print('  REGROUPS: `NOT (a) ?? true` parses as NOT (a ?? true) '
          '(P_DOUBLEQMARK_OP > P_NOT)')
    bad += 1
sys.exit(1 if bad else 0)
