"""Triage (never used by a check): the real
edb.server.compiler.compiler._compile_ql_transaction marks every
transaction-control unit whose compilation changes the compiler's own
transaction / savepoint state as not cacheable -- except RELEASE SAVEPOINT.
dbview keeps cacheable units in the compiled-query cache (keyed by the query
and the session state, not by the savepoint stack) and serves a repeated
identical statement from there without calling the compiler; the compiler's
savepoint stack then keeps a savepoint the backend released.

usage: t.py [repo-root]   exit 0 = no state-changing unit is cacheable"""
import os, sys, types
sys.path.insert(0, os.path.dirname(os.path.abspath(__file__)))
import harness
ROOT = sys.argv[1] if len(sys.argv) > 1 else '/repo'
harness.install(ROOT)
for name in ('edb.pgsql.parser.parser', 'edb.server.compiler.rpc'):
    m = types.ModuleType(name)
    m.__getattr__ = lambda n: type(n, (), {})
    sys.modules[name] = m
from edb.edgeql import ast as qlast
from edb.server.compiler import compiler, dbstate

calls = []


class Tx:
    def declare_savepoint(self, name): calls.append(('declare', name)); return 7
    def release_savepoint(self, name): calls.append(('release', name))
    def rollback_to_savepoint(self, name):
        calls.append(('rollback_to', name))
        return types.SimpleNamespace(modaliases=None)


class State:
    def current_tx(self): return Tx()


ctx = types.SimpleNamespace(expect_rollback=False, state=State())
bad = 0
for node in (qlast.DeclareSavepoint(name='a'),
             qlast.RollbackToSavepoint(name='a'),
             qlast.ReleaseSavepoint(name='a')):
    calls.clear()
    q = compiler._compile_ql_transaction(ctx, node)
    changed = bool(calls)
    print(f'{type(node).__name__:22} state change {calls}  cacheable={q.cacheable}')
    bad += changed and q.cacheable
sys.exit(1 if bad else 0)
