import sys, types, uuid, importlib.abc, importlib.machinery

def install(root):
    sys.path.insert(0, root)
    m = types.ModuleType('edb._edgeql_parser')
    for a in ('unreserved_keywords', 'future_reserved_keywords',
              'current_reserved_keywords', 'partial_reserved_keywords'):
        setattr(m, a, frozenset())
    sys.modules['edb._edgeql_parser'] = m

    class _Mod(types.ModuleType):
        __path__ = []
        def __getattr__(self, name):
            if name.startswith('__'):
                raise AttributeError(name)
            cls = type(name, (), {})
            setattr(self, name, cls)
            return cls

    class Finder(importlib.abc.MetaPathFinder, importlib.abc.Loader):
        def find_spec(self, fullname, path, target=None):
            if fullname == 'parsing' or fullname.startswith('parsing.'):
                return importlib.machinery.ModuleSpec(fullname, self, is_package=True)
            return None
        def create_module(self, spec):
            return _Mod(spec.name)
        def exec_module(self, module):
            pass
    sys.meta_path.insert(0, Finder())

    t = types.ModuleType('edb.common.turbo_uuid')
    class UUID(uuid.UUID):
        def __init__(self, v=None, **kw):
            if isinstance(v, uuid.UUID):
                super().__init__(int=v.int)
            elif isinstance(v, (bytes, bytearray)):
                super().__init__(bytes=bytes(v))
            elif v is None:
                super().__init__(**kw)
            else:
                super().__init__(v)
    t.UUID = UUID
    sys.modules['edb.common.turbo_uuid'] = t
