"""Triage (never used by a check): three schedules on the real
edb/server/connpool/pool.py (virtual clock; harness and scenarios by a seed
agent) in which a request waited for ever although connecting worked and
nothing was in flight:

  A  capacity 1: x holds, y and z wait; x releases, the connection is moved
     to y, y's connect gives up after its retries.  The freed slot was never
     offered to z (waitlisted): capacity 0/1, z blocked.
  B  capacity 2: the tick discards v's idle connection; while it is still
     closing (slot counted) y requests and is waitlisted; the close
     completes -> capacity 1/2, every later tick is "Mode B: pass", y blocked.
  C  capacity 2: a burst over a,b,c,d leaves _is_starving set and two idle
     connections in a and b; later e and f request: the stealing step only
     ran on the tick that *entered* starving mode, so e and f are blocked next
     to two idle connections.

usage: t.py [repo-root]     exit 0 = every request is served
"""
import asyncio, os, sys
sys.path.insert(0, os.path.dirname(os.path.abspath(__file__)))
import harness

ROOT = sys.argv[1] if len(sys.argv) > 1 else '/repo'


class Conn:
    def __init__(self, db):
        self.db = db


def scenario_a():
    async def main(poolmod, config, loop):
        async def connect(db):
            await asyncio.sleep(0.002)
            if db == 'y':
                raise ConnectionError('y is down')
            return Conn(db)

        async def disconnect(c):
            await asyncio.sleep(0.001)
        pool = poolmod.Pool(connect=connect, disconnect=disconnect,
                            max_capacity=1)
        res = {}

        async def holder(db, hold):
            try:
                c = await pool.acquire(db)
            except Exception as e:
                res[db] = repr(e)
                return
            res[db] = loop.time()
            await asyncio.sleep(hold)
            pool.release(db, c)
        tasks = [loop.create_task(holder('x', 0.005))]
        await asyncio.sleep(0.003)
        tasks += [loop.create_task(holder('y', 0.005))]
        await asyncio.sleep(0.0001)
        tasks += [loop.create_task(holder('z', 0.005))]
        done, pending = await asyncio.wait(tasks, timeout=20)
        for t in pending:
            t.cancel()
        return len(pending), f'capacity {pool._cur_capacity}/1, served {sorted(res)}'
    return harness.run(ROOT, main)


def scenario_b():
    async def main(poolmod, config, loop):
        async def connect(db):
            await asyncio.sleep(0.002)
            return Conn(db)

        async def disconnect(c):
            await asyncio.sleep(0.004)
        pool = poolmod.Pool(connect=connect, disconnect=disconnect,
                            max_capacity=2)
        got = {}

        async def client(db, hold):
            c = await pool.acquire(db)
            got[db] = loop.time()
            await asyncio.sleep(hold)
            pool.release(db, c)
        t1 = loop.create_task(client('v', 0.003))
        await asyncio.sleep(0.006)
        t3 = loop.create_task(client('x', 0.0065))
        await asyncio.sleep(0.0055)
        ty = loop.create_task(client('y', 0.003))
        done, pending = await asyncio.wait([ty, t3, t1], timeout=10)
        for t in pending:
            t.cancel()
        return len(pending), f'capacity {pool._cur_capacity}/2, served {sorted(got)}'
    return harness.run(ROOT, main)


def scenario_c():
    async def main(poolmod, config, loop):
        async def connect(db):
            await asyncio.sleep(0.002)
            return Conn(db)

        async def disconnect(c):
            await asyncio.sleep(0.001)
        pool = poolmod.Pool(connect=connect, disconnect=disconnect,
                            max_capacity=2)
        got = {}

        async def holder(db, hold):
            c = await pool.acquire(db)
            got[db] = loop.time()
            await asyncio.sleep(hold)
            pool.release(db, c)
        tasks = [loop.create_task(holder(db, 0.03)) for db in 'abcd']
        await asyncio.wait(tasks, timeout=5)
        await asyncio.sleep(0.5)
        late = [loop.create_task(holder(db, 0.03)) for db in 'ef']
        done, pending = await asyncio.wait(late, timeout=20)
        for t in pending:
            t.cancel()
        idle = sum(len(b.conn_stack) for b in pool._blocks.values())
        return len(pending), f'{idle} idle connection(s), starving={pool._is_starving}, served {sorted(got)}'
    return harness.run(ROOT, main)


bad = 0
for name, fn in (('A', scenario_a), ('B', scenario_b), ('C', scenario_c)):
    blocked, info = fn()
    print(f'scenario {name}: {blocked} request(s) still blocked at the end; {info}')
    bad += bool(blocked)
sys.exit(1 if bad else 0)
