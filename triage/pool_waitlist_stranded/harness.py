import asyncio, importlib.util, sys, types, os, heapq

def load_pool(root):
    for name in ('edb', 'edb.server', 'edb.server.connpool'):
        if name not in sys.modules:
            m = types.ModuleType(name); m.__path__ = []
            sys.modules[name] = m
    base = os.path.join(root, 'edb', 'server', 'connpool')
    mods = {}
    for sub in ('config', 'rolavg', 'pool'):
        full = 'edb.server.connpool.' + sub
        spec = importlib.util.spec_from_file_location(full, os.path.join(base, sub + '.py'))
        mod = importlib.util.module_from_spec(spec)
        sys.modules[full] = mod
        setattr(sys.modules['edb.server.connpool'], sub, mod)
        spec.loader.exec_module(mod)
        mods[sub] = mod
    return mods['pool'], mods['config']


class VLoop(asyncio.SelectorEventLoop):
    """Event loop with virtual time: jumps straight to the next timer."""
    def __init__(self):
        super().__init__()
        self._vt = 0.0
    def time(self):
        return self._vt
    def _run_once(self):
        if not self._ready and self._scheduled:
            while self._scheduled and self._scheduled[0]._cancelled:
                h = heapq.heappop(self._scheduled); h._scheduled = False
                self._timer_cancelled_count -= 1
            if self._scheduled and self._scheduled[0]._when > self._vt:
                self._vt = self._scheduled[0]._when
        super()._run_once()


def run(root, main, horizon=30.0):
    poolmod, config = load_pool(root)
    loop = VLoop()
    asyncio.set_event_loop(loop)
    poolmod.time = types.SimpleNamespace(monotonic=loop.time)
    import logging
    logging.getLogger('edb.server').setLevel(logging.CRITICAL)
    logging.getLogger('asyncio').setLevel(logging.CRITICAL)
    try:
        return loop.run_until_complete(main(poolmod, config, loop))
    finally:
        loop.close()
