import os
import re
import sys
import types as _pytypes
import uuid as _uuid


def install_stubs(root):
    """Stub only what cannot be built here: the Rust parser extension, the
    `parsing` LR library and the Cython `turbo_uuid` module."""
    sys.path.insert(0, root)
    src = open(
        os.path.join(root, 'edb/edgeql-parser/src/keywords.rs')).read()

    def grab(name):
        m = re.search(name + r'[^=]*=\s*phf_set!\((.*?)\);', src, re.S)
        return frozenset(re.findall(r'"([^"]+)"', m.group(1)))

    m = _pytypes.ModuleType('edb._edgeql_parser')
    m.unreserved_keywords = grab('UNRESERVED_KEYWORDS')
    m.partial_reserved_keywords = grab('PARTIAL_RESERVED_KEYWORDS')
    m.future_reserved_keywords = grab('FUTURE_RESERVED_KEYWORDS')
    m.current_reserved_keywords = grab('CURRENT_RESERVED_KEYWORDS')

    class _Dummy:
        def __init__(self, *a, **k):
            pass

    for n in ('SourcePoint', 'Hasher', 'Entry', 'OpaqueToken',
              'ParserResult', 'CSTNode', 'Production', 'Terminal'):
        setattr(m, n, type(n, (_Dummy,), {}))
    m.SyntaxError = type('SyntaxError', (Exception,), {})

    def _unavailable(*a, **k):
        raise RuntimeError('native parser is not available')

    for n in ('tokenize', 'normalize', 'unpack', 'parse', 'preload_spec',
              'save_spec', 'suggest_next_keywords'):
        setattr(m, n, _unavailable)
    sys.modules['edb._edgeql_parser'] = m

    p = _pytypes.ModuleType('parsing')
    for n in ('Token', 'Nonterm', 'Precedence', 'Spec', 'Lr', 'Symbol'):
        setattr(p, n, type(n, (), {}))
    sys.modules['parsing'] = p

    tu = _pytypes.ModuleType('edb.common.turbo_uuid')

    class UUID(_uuid.UUID):
        def __init__(self, inp):
            if isinstance(inp, (bytes, bytearray, memoryview)):
                super().__init__(bytes=bytes(inp))
            elif isinstance(inp, _uuid.UUID):
                super().__init__(bytes=inp.bytes)
            else:
                super().__init__(str(inp))

    tu.UUID = UUID
    sys.modules['edb.common.turbo_uuid'] = tu
    import edb
    import edb.common
    edb._edgeql_parser = m
    edb.common.turbo_uuid = tu



"""Triage (never used by a check): the CONFIGURE statements rendered for a
stored configuration (config.to_edgeql, what DESCRIBE SYSTEM/INSTANCE CONFIG
and dumps show) failed for every setting of type cfg::memory:
edb.schema.utils.const_ast_from_python had arms for every config scalar
(str, bool, int, float, Duration, enums, objects) except ConfigMemory.
Real edb.server.config / edb.schema.utils, stubbing only the native parser,
`parsing` and turbo_uuid (stub code from a seed agent's demo).

usage: config_memory_to_edgeql.py [repo-root]   exit 0 = rendered
"""
install_stubs(os.path.abspath(sys.argv[1] if len(sys.argv) > 1 else '/repo'))

import immutables  # noqa: E402
from edb.server import config  # noqa: E402
from edb.server.config import ops, spec  # noqa: E402
from edb.ir import statypes  # noqa: E402
from edb.edgeql import qltypes  # noqa: E402

sp = spec.FlatSpec(
    spec.Setting('mem', type=statypes.ConfigMemory,
                 default=statypes.ConfigMemory('0')),
    spec.Setting('dur', type=statypes.Duration,
                 default=statypes.Duration('0')),
)
storage = immutables.Map()
for name, val in (('mem', '1536KiB'), ('dur', '90 seconds')):
    op = ops.Operation(ops.OpCode.CONFIG_SET, qltypes.ConfigScope.INSTANCE,
                       name, val)
    storage = op.apply(sp, storage)
print('stored:', {k: v.value for k, v in storage.items()})
try:
    text = config.to_edgeql(sp, storage, with_secrets=True)
except Exception as e:
    print('FAIL: to_edgeql raised', type(e).__name__, e)
    sys.exit(1)
print(text)
ok = "memory>'1536KiB'" in text.replace(' ', '').replace('"', "'") or \
    'memory>' in text and '1536KiB' in text
sys.exit(0 if ok else 1)
